#!/bin/bash
# ingest.sh <ID> <n> [CHECK...]  verify a sub-agent's seeded change in ITS scratch worktree (/tmp/mut/<ID>), copy it to
# /verif/seeded/<ID>-<n>/, then run the given checks against it through seedtest.sh (apply to /repo, run, undo).
set -u
id=$1; n=$2; shift 2
export GOFLAGS=-mod=mod GOPROXY=off
MUTROOT=${MUTROOT:-/tmp/mut2}; OFFSET=${OFFSET:-2}
W=$MUTROOT/$id; O=$W/OUT
[ -f "$O/patch$n.diff" ] || { echo "no $O/patch$n.diff"; exit 3; }
meta=$O/meta$n.json
place=$(python3 -c "import json;print(json.load(open('$meta')).get('demo_place','.'))")
cmd=$(python3 -c "import json;print(json.load(open('$meta')).get('demo_cmd','').replace('<repo>','$W').replace('<REPO>','$W'))")
echo "== $id-$((n+OFFSET)): $(python3 -c "import json;print(json.load(open('$meta')).get('summary',''))")"
echo "   needs: $(python3 -c "import json;print(json.load(open('$meta')).get('needs',''))")"
echo "   demo_place=$place demo_cmd=$cmd"
cd $W || exit 3
[ -f "$O/go.mod" ] || echo "module out" > "$O/go.mod"   # keep OUT/ out of ./...
git checkout -q -- . ; git clean -fdq -e OUT >/dev/null 2>&1
demo=$(ls $O/demo$n* 2>/dev/null | head -1)
put_demo() { if echo "$cmd" | grep -q "cp OUT/\|cp -r OUT/"; then return; fi; if [ -d "$demo" ]; then cp -r "$demo" "$W/$place/"; else cp "$demo" "$W/$place/"; fi; }
rm_demo() { rm -rf "$W/$place/$(basename $demo)"; ( cd $W && git clean -fdq -e OUT >/dev/null 2>&1 ); }
# 1. demo passes without the change
put_demo
( cd $W && eval "$cmd" ) >/tmp/ingest.$$.a 2>&1; a=$?
# 2. with the change: suite passes, demo fails
rm_demo
git apply "$O/patch$n.diff" || { echo "   patch does not apply"; exit 3; }
( go build ./... && go test -vet=off -count=1 ./... ) >/tmp/ingest.$$.s 2>&1; s=$?
put_demo
( cd $W && eval "$cmd" ) >/tmp/ingest.$$.b 2>&1; b=$?
rm_demo
git checkout -q -- . ; git clean -fdq -e OUT >/dev/null 2>&1
echo "   demo without change: rc=$a (want 0); suite with change: rc=$s (want 0); demo with change: rc=$b (want !=0)"
if [ $a -ne 0 ] || [ $s -ne 0 ] || [ $b -eq 0 ]; then echo "   NOT CONFIRMED"; for f in a s b; do tail -n 5 /tmp/ingest.$$.$f | cut -c1-200; done; rm -f /tmp/ingest.$$.*; exit 4; fi
rm -f /tmp/ingest.$$.*
D=/verif/seeded/$id-$((n+OFFSET)); mkdir -p $D
cp "$O/patch$n.diff" $D/patch.diff
if [ -d "$demo" ]; then cp -r "$demo" $D/; else cp "$demo" $D/; fi
python3 - "$meta" "$D/meta.json" "$place" "$cmd" <<'PY'
import json,sys
m=json.load(open(sys.argv[1]))
out={"property":m.get("property"),"summary":m.get("summary"),"needs":m.get("needs"),
     "demo_place":sys.argv[3],"demo_cmd":sys.argv[4],
     "confirmed":{"where":"scratch worktree of /repo HEAD outside /repo and /verif","suite_passes_with_change":True,"demo_fails_with_change":True,"demo_passes_without_change":True,
                  "ran":"go build ./... && go test -vet=off -count=1 ./... ; demo_cmd with and without patch.diff applied"}}
json.dump(out,open(sys.argv[2],'w'),indent=1)
PY
echo "   confirmed; stored in $D"
if [ $# -gt 0 ]; then /verif/tools/seedtest.sh $D/patch.diff "$@" | sed 's/^/   /' | tee $D/checks.txt; fi
