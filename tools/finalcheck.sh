#!/bin/bash
# finalcheck.sh  quick tier at four seeds, then the thorough tier of every check but C03 (65 min on its own)
cd "$(dirname "$0")/.." || exit 3
./tools/sweep.sh quick 1 2 3 4; q=$?
bad=0
for i in 01 02 04 05 06 07 08 09 10 11 12 13 14 15 16 17 18 19 20; do
  out=$(VERIF_SEED=3 ./run.sh C$i thorough 2>&1); rc=$?
  echo "seed=3 rc=$rc $(echo "$out" | grep "tier=")"
  if [ $rc -ne 0 ]; then bad=1; echo "$out" | grep -E "VIOLATION|sig=|INCONCL" | head -6; fi
done
exit $((q|bad))
