#!/usr/bin/env python3
"""seedtable.py <suffix...>  print the DESIGN.md table rows for seeded/<ID>-<suffix> from meta.json and the
latest outcome per check in checks.txt (the lines written by seedtest.sh / seedround.sh)."""
import json, os, re, sys
root = os.path.join(os.path.dirname(os.path.abspath(__file__)), '..', 'seeded')
suffixes = set(sys.argv[1:])
def cut(s, n):
    s = ' '.join(str(s).split())
    return s if len(s) <= n else s[:n] + '…'
print('| seeded change | what it does (needs) | caught by (violated / cases, first signature) | not caught by |')
print('|---|---|---|---|')
for name in sorted(os.listdir(root)):
    if name.split('-')[-1] not in suffixes:
        continue
    d = os.path.join(root, name)
    meta = json.load(open(os.path.join(d, 'meta.json')))
    lines = open(os.path.join(d, 'checks.txt')).read().splitlines()
    # the latest outcome per check over all sections of checks.txt
    latest = {}
    for l in lines:
        m = re.match(r'\s*(C\d+) caught\s+\[(\d+) cases \((\d+) held, (\d+) violated.*?\]\s*(\S+)?', l)
        if m:
            latest[m.group(1)] = '%s (%s/%s, `%s`)' % (m.group(1), m.group(4), m.group(2), m.group(5) or '')
            continue
        m = re.match(r'\s*(C\d+) missed', l)
        if m:
            latest[m.group(1)] = None
    own = name.split('-')[0]
    order = sorted(latest, key=lambda k: (k != own, k))
    caught = [latest[k] for k in order if latest[k]]
    missed = [k for k in order if not latest[k]]
    print('| `%s` | %s (*needs:* %s) | %s | %s |' % (name, cut(meta.get('summary', ''), 230), cut(meta.get('needs', ''), 200),
          '; '.join(caught) or '**none**', ', '.join(missed) or '—'))
