#!/bin/bash
# seedtest.sh <patch.diff> <CHECK...>   apply a seeded change to /repo, run the repo's suite and the given quick checks, undo.
# Prints one line per check: <ID> caught|missed (exit code, violations line). Never leaves /repo modified.
set -u
patch=$1; shift
export GOFLAGS=-mod=mod GOPROXY=off
cd /repo || exit 3
if [ -n "$(git status --porcelain)" ]; then echo "repo not clean" >&2; exit 3; fi
if ! git apply --check "$patch" 2>/dev/null; then echo "patch does not apply: $patch" >&2; exit 3; fi
git apply "$patch"
# evidence files must only ever describe runs on the unchanged tree: keep them aside
rm -rf /verif/work/evidence.keep; mkdir -p /verif/work; cp -r /verif/evidence /verif/work/evidence.keep
trap 'cd /repo && git checkout -- . && git clean -fdq -- . >/dev/null 2>&1; rm -rf /verif/evidence; mv /verif/work/evidence.keep /verif/evidence' EXIT
if go build ./... >/dev/null 2>&1 && go test -vet=off -count=1 ./... >/tmp/seedtest.suite.$$ 2>&1; then
  echo "suite: passes with the change"
else
  echo "suite: FAILS with the change"; grep -E "^(FAIL|---)" /tmp/seedtest.suite.$$ | head -5
fi
rm -f /tmp/seedtest.suite.$$
for id in "$@"; do
  out=$(cd /verif && VERIF_SEED=${VERIF_SEED:-1} ./run.sh "$id" ${TIER:-quick} 2>&1)
  rc=$?
  sigs=$(echo "$out" | grep -E "^  sig=" | sed 's/^  sig=//' | sort -u | head -4 | tr '\n' ' ')
  sum=$(echo "$out" | grep -E "tier=" | sed 's/.*: //')
  if [ $rc -eq 1 ]; then echo "$id caught   [$sum] $sigs"; elif [ $rc -eq 0 ]; then echo "$id missed   [$sum]"; else echo "$id rc=$rc    [$sum] $(echo "$out" | tail -2 | tr '\n' ' ')"; fi
done
