#!/bin/bash
# seedround.sh "<name> <check...>" ...   re-run the given quick checks against seeded changes in a scratch worktree
# (never /repo) and append the outcome to seeded/<name>/checks.txt under the heading given in $HEADING.
set -u
ROOT=$(cd "$(dirname "$0")/.." && pwd)
WT=$(mktemp -d /tmp/seedround.XXXXXX)
git -C /repo worktree add -q --detach "$WT/repo" HEAD || exit 3
export VERIF_REPO=$WT/repo GOFLAGS=-mod=mod GOPROXY=off
rm -rf "$ROOT/work/evidence.keep"; mkdir -p "$ROOT/work"; cp -r "$ROOT/evidence" "$ROOT/work/evidence.keep"
trap 'git -C /repo worktree remove --force "$WT/repo"; git -C /repo worktree prune; rm -rf "$WT"; rm -rf "$ROOT/evidence"; mv "$ROOT/work/evidence.keep" "$ROOT/evidence"' EXIT
cd "$ROOT"
for spec in "$@"; do
  set -- $spec; name=$1; shift
  d=seeded/$name
  ( cd $VERIF_REPO && git checkout -q -- . && git apply "$ROOT/$d/patch.diff" ) || { echo "$name patch does not apply"; continue; }
  echo "   -- ${HEADING:-re-run} --" >> $d/checks.txt
  for id in "$@"; do
    out=$(VERIF_SEED=${VERIF_SEED:-1} ./run.sh $id quick 2>&1); rc=$?
    sigs=$(echo "$out" | grep -E "^  sig=" | sed 's/^  sig=//' | sort -u | head -4 | tr '\n' ' ')
    sum=$(echo "$out" | grep -E "tier=" | sed 's/.*: //')
    if [ $rc -eq 1 ]; then line="$id caught   [$sum] $sigs"; elif [ $rc -eq 0 ]; then line="$id missed   [$sum]"; else line="$id rc=$rc    [$sum]"; fi
    echo "$name: $line"; echo "   $line" >> $d/checks.txt
  done
  ( cd $VERIF_REPO && git checkout -q -- . )
done
