#!/usr/bin/env python3
"""Regenerates /verif/MANIFEST.json from the table below (one entry per built check)."""
import json, subprocess

CHECKS = {
 "C19": dict(level="exploration", design="§4 C19",
   technique="runtime monitoring under the Go race detector: 4-12 real goroutines with one connection each, store-injected delays, race-log attribution per case, decoded stamp ownership, per-connection deadline attribution, M-row model of merged and own views",
   text="Independent seeded statement streams (writes, transactions, refresh, version, old-cutoff vacuum, drop/create) run concurrently on shared and separate prefixes, three repetitions per case, built with -race; any data race report, worker death or hang is a violation; every decoded stamp of a connection's own keys must come from its own write_time range, deadline errors may only appear on the connection whose deadline expired, merged rows per prefix and each connection's own view must equal the model.",
   note="The race detector sees only executed interleavings (counted as distinct request arrival orders); environment not scrubbed (AWS_CA_BUNDLE set); one slice uses the built-in bucket without any hook."),
 "C20": dict(level="exploration", design="§4 C20",
   technique="runtime monitoring: grammar-derived expectation (must accept / must reject / either-but-consistent) vs CREATE outcome, pragma_table_info, registry state, request log and row round trip",
   text="Generated argument lists in three classes; accepted lists must declare exactly the specified names, order, key and NOT NULL flags, enforce NOT NULL and return rows under the specified names; rejected lists must leave no table registered (the name is immediately reusable) and no object written; ambiguous lists are only checked for consistency.",
   note="Expectation derived from the README argument reference and the module's usage text; tables without PRIMARY KEY compare only their visible columns."),
 "C17": dict(level="exploration", design="§4 C17",
   technique="runtime monitoring: state-based reference mirror of the kv last-write/tombstone rules compared with Get, full cursor walks, Diff and TraceHistory after every step of random multi-handle histories on the public kv API",
   text="2-4 kv handles on one prefix run Set/Tombstone/RemoveTombstones/Commit/Clone/re-Open with distinct non-monotone times in default, conflict-callback and custom-merge modes, JSON and gob version objects, branch factors 2..4096; after every step the acting handle's Get results and complete cursor walk (values, times, earliest tombstones) must equal the mirror, sampled Diffs must report exactly the keys whose visible value differs, TraceHistory must start at the current value, yield only values ever set for the key and strictly decreasing times, and the conflict callback must only see two different non-tombstone values.",
   note="The mirror keeps purges local to the handle that ran them and tracks which versions are current, exactly as documented; ties in time are not generated."),
 "C18": dict(level="exploration", design="§4 C18",
   technique="runtime monitoring: round-trip/determinism/tamper oracle on the encryption primitives (hook H4 wrappers) with every single-bit flip of short ciphertexts, plus end-to-end scans of stored node objects for plaintext markers on the instrumented store",
   text="All message lengths 0..130 (0..1100 thorough) under several passphrases: decrypt(encrypt(m)) = m, equal plaintext gives equal ciphertext, the nonce depends on the key, every truncation, extension, other passphrase and every single-bit flip (all bits for ciphertexts <= 96 bytes) must be rejected, legacy-format boxes must open to their plaintext. End to end with V1NodeEncryptor: no node object contains a 16-byte marker stored as key or value, a wrong passphrase or one flipped bit in a node object yields errors, recommitting unchanged data stores nothing twice and never rewrites a name.",
   note="Behavioural only: no claim about cipher strength. Exhaustive only over bit positions of the listed short ciphertexts."),
 "C03": dict(level="exploration", design="§4 C03",
   technique="runtime monitoring: deterministic request scheduler in the instrumented store (exhaustive DFS over version-namespace interleavings for two-client configurations, random priorities over all requests for 3-4 clients; some configurations with an injected failure of the read of a retired version) + porcupine linearizability check of the recorded commit/open history against a grow-only set; -race build",
   text="Commits and opens are recorded with call/return at the scheduler's logical time; each history must be linearizable as a grow-only set whose reads return exactly the current set (so an opener can neither miss a commit that completed before it began nor show a state such as the empty table), and after the clients stop a read-write and a read-only open must contain every acknowledged marker. Two-client configurations are enumerated completely at the granularity of root/ requests; larger ones are sampled.",
   note="Assumes atomic single-page LIST and immutable content-addressed node objects (asserted online); exhaustive per configuration only; porcupine timeouts are inconclusive."),
 "C04": dict(level="fault_enumeration", design="§4 C04",
   technique="runtime monitoring with fault injection: crash after every mutating storage request of a commit (transaction, merge-on-open, vacuum), plus for transactions one failure with rollback-and-retry on the same connection at every request and the connection deadline expiring at sampled requests; recovery opens compared with recorded before/after contents, bucket walk of current versions",
   text="For each subject the number K of mutating requests is measured fault-free, then every k in 0..K is executed: the client dies right after its k-th PUT/DELETE, the connection is abandoned, and a read-only open, a read-write recovery open and a further read-only open of the frozen bucket must succeed and show exactly the old or the new contents, the same in all three, the new ones if the commit had been acknowledged. Enumeration over k is complete per subject; subjects are sampled.",
   note="Crash model: whole-object atomic requests, prefix of the client's mutation sequence takes effect. Concurrent node PUTs of one flush make the prefix a sample of 'k of them landed'. Garbage nodes are allowed."),
 "C14": dict(level="fault_enumeration", design="§4 C14",
   technique="runtime monitoring with fault injection: a failing (once/persistent/read-outage; connection reset, 503, or truncated GET body) or deadline-blocked request at every request position of a target statement, including raced opens/refreshes that read retired versions from their second location; retries of failed writes; result compared with the fault-free run; liveness watchdog on logical quiescence; recovery probes",
   text="For 19 kinds of target statement (opens with merge, scans, lookups, writes incl. the REAL twin of stored INTEGER keys, commits, refresh, changes, vacuum) every request position up to 60 is faulted with a single error, a persistent error and (3 positions) a request blocking until the connection's deadline; each run must give an error or exactly the fault-free result, acknowledged writes must be visible to a fresh open afterwards, the process must survive, the statement must return, the connection's own un-refreshed view must show no trace of a failed statement, follow-up writes on that connection must publish complete versions that lose nothing, and the same and a new connection must work again after the fault clears.",
   note="Transport fault = non-retryable request error; deadline fault = request blocks until the context is done (1-2 s). Hang verdict is logical: no request in flight and none for 30 s. NoSuchKey is not treated as a fault."),
 "C09": dict(level="exploration", design="§4 C09",
   technique="runtime monitoring: dump equality across vacuum (same/fresh/historic opens), independent bucket walk of every retained version, crash and single-failure injection at every mutating request of sampled vacuums, returns to reclaimed content (same and other connection, node cache on in a slice; deterministic one-column scenarios cache-return and keep-walk), GET failures at the last 60 requests of the vacuum, quiescence after recovery, version-stamp monitor against the harness clock, virtual clock through hook H3",
   text="Histories built to share content-addressed nodes between old and new versions (insert-then-delete, revert, delete-all, earlier vacuums, merges) are vacuumed with cutoffs before/at/between/after the version stamps and delete times; rows through the same connection, a fresh connection and every earlier version created at or after the cutoff must be unchanged, every version still listed must reach only existing decodable nodes, later writes must work; half of the cases let write times lag behind the version clock so that markers are purged while all versions are retained, then purge a transient key and run a final vacuum with a cutoff after everything, re-applying all oracles; one case in three repeats the vacuum with a crash after every mutating request and checks the recovery opens.",
   note="Creation time = the stamp in the version object (handle's last open/refresh). The vacuuming handle has merged everything (vacuum next to unmerged forks older than the cutoff is documented as unsafe). After a crash, version objects the interrupted vacuum was about to remove are not counted as retained."),
 "C10": dict(level="exploration", design="§4 C10",
   technique="runtime monitoring: reference retention rule over the recorded version DAG and decoded delete stamps vs the bucket listing after vacuum; idempotence by listing equality; late-merge resurrection probe; single-failure injection at every mutating request followed by a repeated vacuum and an orphan-node scan; final everything-superseded vacuum; planted emptied-version-beside-a-fork scenario under both merge orders (hook H2)",
   text="After each successful vacuum the decoded current tree must have lost exactly the markers of rows deleted strictly before the cutoff and kept the others with unchanged delete times; the removed version and node objects must equal the reference rule (a version goes iff all its successors were created before the cutoff, a node iff only reclaimed versions reach it); a second identical vacuum must leave names and hashes of all objects unchanged; a late merge of an older live copy must not resurrect a row whose marker was kept.",
   note="The rule is evaluated on the DAG including the version the vacuum itself commits; garbage nodes no version ever referenced are not demanded to go; boundaries are probed with cutoffs equal to recorded stamps. A failed vacuum that had already deleted nodes cannot be completed by repeating it: known finding D35."),
 "C05": dict(level="exploration", design="§4 C05",
   technique="runtime monitoring: native shadow table inside the same SQLite transaction, bucket listing before/after, request-log counting of version PUTs, decoded stamps per transaction, injected storage errors in COMMIT",
   text="Programs of 15-45 transactions (failing statements, in-transaction reads, COMMIT / ROLLBACK / COMMIT hitting an injected storage error) on trees of 1-4 levels including small sparse ones: rows and root/ listing after any rollback must equal those before BEGIN, committing transactions write exactly one version object (none when nothing changed), all stamps assigned by one transaction - also across a second s3db table that joins it - are one value inside the BEGIN..COMMIT bracket (or the explicit write_time), the table is re-opened with another entries_per_node in half of the programs, and the connection is usable after a failed commit.",
   note="Multi-row statement atomicity inside explicit transactions is not demanded (no savepoints). Visibility to other openers at each request boundary is C04's enumeration. Trusts native SQLite as the shadow."),
 "C13": dict(level="exploration", design="§4 C13",
   technique="runtime monitoring: online assertion inside the instrumented store (no PUT/DELETE from a handle whose table was opened readonly) + dump stability across refused writes",
   text="Read-only tables opened over 0-4 unmerged versions run random programs of queries, refresh, version, changes, vacuum attempts with cutoffs before/between/after all stamps and write attempts inside/outside transactions while writers keep committing; the store asserts online that no mutating request carries the read-only flag, write statements must fail, visible rows must not change across refused operations.",
   note="The read-only flag travels with the client object hook H1 hands to kv.Open (taken from the table's own options), so the assertion sees every request of the table including temporary diff handles."),
 "C11": dict(level="exploration", design="§4 C11",
   technique="runtime monitoring: recorded (version name, rows) pairs re-read later through s3db_changes(from='[]'), the Go API with OnlyVersions and the independent bucket decoder; version-name stability/no-op oracle",
   text="Histories of 1-4 writers record s3db_version() and the rows after every step; earlier versions are re-read at later steps and all of them at the end, three independent ways, and must return the recorded rows; version names must be stable across no-op steps, change with the contents, and a read-only table must list exactly the unmerged versions.",
   note="No vacuum in these histories (exempted by the property); retries not generated."),
 "C12": dict(level="exploration", design="§4 C12",
   technique="runtime monitoring: inclusion oracle over recorded snapshots for all ordered version pairs (also read as the inner table of a join, through multi-version read-only tables, and from a long-lived changes table) + exhaustive single-fault sweep over the request positions of sampled diffs",
   text="For all ordered pairs of recorded versions (all up to 12, sampled beyond; 'to' omitted included) the rows of s3db_changes must be rows of B with identical values and contain every row of B that is absent from or different in A, without error; for sampled differing pairs an injected storage error at every request position of the diff must give an error or an answer satisfying the same inclusions.",
   note="R = diff is not demanded. Fault sweep is exhaustive per sampled pair only."),
 "C01": dict(level="exploration", design="§4 C01",
   technique="runtime monitoring: model-free convergence oracle - dumps of all opens that merged the same version set must be equal - under harness-chosen merge permutations (hook H2), withheld/revealed commits, partial merges and re-merged ancestors; request-log quiescence check; order/grouping/repetition oracle over direct calls of the row merge function with nanosecond-distinct write times",
   text="Version sets with 3-6 frontier versions forked from different ancestors are merged under 8 schedules each: every permutation of the version list (all n! up to 4, sampled beyond), intermediate openers committing partial merges, retired ancestors put back, commits revealed one at a time. All dumps must be identical; a second read-write open must issue no PUT under root/ and keep s3db_version(). Exploration: version sets and schedules are sampled; permutations are exhausted for lists up to 4. Appended cases fold 3-4 writers' rows of one key (built from UPDATE/DELETE/INSERT statement rows with sub-second write times, as the Go API allows) through MergeRows in every order and grouping and once more with a version already merged: every fold must show the same row.",
   note="Only visible rows are compared; equal write times on one key are not generated; trusts the instrumented store and hook H2 (identity when unset)."),
 "C15": dict(level="exploration", design="§4 C15",
   technique="runtime monitoring: dump equality before/after byte-identical retries + M-row model; decoded stamps from the bucket vs the write_time in force; s3db_conn read-back; expired-deadline behaviour",
   text="Histories with retries of accepted statements re-executed with the same write_time and values at later points on any writer must leave the merged table unchanged and equal to the model; connection attributes are read back, stamps decoded from committed objects must equal the explicit write_time (or fall in the harness's own before/after bracket when cleared), an expired deadline must fail storage-touching statements only while set, other connections must be unaffected.",
   note="Retries are byte-identical re-executions; default-time stamps are only bracketed; trusts the bucket decoder."),
 "C02": dict(level="exploration", design="§4 C02",
   technique="runtime monitoring: executable reference model (README multi-writer rules) over the accepted statements, compared with every writer's local view after each statement and with merged fresh opens",
   text="Random multi-writer histories with globally distinct, non-monotone write times, refresh points and transactions are run on the real extension; after every statement the writer's own dump must equal the model applied to its causal past, and read-only/read-write fresh opens at the end must equal the model over all committed statements; re-partitions of the same statements onto one writer must agree when they accept the same statements. Exploration: histories are sampled.",
   note="Trusts the 40-line model as the reading of the README; acceptance is taken from the system (success and >=1 changed row); ties in write time are not generated."),
 "C08": dict(level="exploration", design="§4 C08",
   technique="runtime monitoring: write/read-back oracle on driver-level values at five life-cycle points, under plain, AddressSanitizer and -race(checkptr) builds; separate reader process",
   text="Boundary and random values of every storage class are written in key and non-key position and read back immediately, from a fresh connection, from another OS process given the bucket as a snapshot file, after a merge with an unrelated version and after vacuum; type and bytes must be identical, unmentioned columns NULL, refused values absent. One slice runs under ASan and one under -race/checkptr so that the cgo value path is sanitised.",
   note="Bit-identity is judged on what mattn/go-sqlite3 returns; NaN is not generated; '' is a known finding (dependency). Sanitizer silence is 'no report on these executions'."),
 "C06": dict(level="exploration", design="§4 C06",
   technique="runtime monitoring: differential execution against native SQLite in the same connection (statement outcome classes and result sets)",
   text="Random single-writer programs are executed statement by statement on the s3db table and on a native WITHOUT ROWID table with the same untyped columns inside the same connection and transaction; the monitor compares every outcome class and every result set (key predicates, ORDER BY asc/desc, LIMIT, aggregates), across branch factors 2..4096, cache on/off, the hook-free built-in bucket, drop/re-create and second-connection re-opens. Exploration: programs are sampled, not enumerated.",
   note="Trusts native SQLite as the reference; untyped columns; numerically equal INT/REAL keys and '' are left to C07/C08; cache-on multi-level cases are covered by known finding D19."),
 "C07": dict(level="exploration", design="§4 C07",
   technique="runtime monitoring: Key.Order and table behaviour compared with SQLite's own comparison of bound values; order axioms on triples; process liveness per case",
   text="Boundary-heavy and random key pairs/triples of all four storage classes: sign of Key.Order vs SQLite's '<,=,>' on the bound values, antisymmetry/transitivity/equality axioms, ORDER BY and point lookups on trees of entries_per_node 2..16 vs a native table, and SQLite-equal pairs (INT n/REAL n.0, +-0) inserted in both orders into trees of varying depth (second insert must be a constraint failure, no twin, no crash; an UPDATE that assigns the key its equal value of the other representation must land on that one row or be refused without effect). Worker death or hang during a case is a violation.",
   note="Trusts SQLite's comparison as the reference order; NaN not generated (SQLite binds it as NULL); cross-writer twins (two writers inserting INT n and REAL n.0 concurrently) are not generated."),
 "C16": dict(level="exploration", design="§4 C16",
   technique="runtime monitoring: independent offline decoder over the bucket after every commit + online immutability assertion in the instrumented store + cache-less re-read; failing PUTs during commits; replay-after-vacuum epilogue (node cache on/off)",
   text="Random write-heavy histories on the real extension (1-3 writers, all branch factors, transactions, rollbacks, merges); after every acknowledged commit the monitors decode the committed version from the bucket with an independent protobuf/JSON reader (links, order, size, height), compare every decoded entry (values, modification/status/column times, delete flags, tombstones) with the writer's in-memory tree and a cache-less read-only handle's scan with the writer's own scan, assert name->bytes immutability online, count PUTs of no-op commits, let single PUTs of commits fail now and then, and have a separate OS process read the final bucket. Exploration is the right level: the property quantifies over histories, which can only be sampled.",
   note="Trusts the in-memory object store (S3 whole-object atomicity), SQLite, and the generated proto package used by the decoder. Cache-on multi-level cases are covered by known finding D19."),
}

NOT_BUILT = "check not built yet in this session (see DESIGN.md for the planned monitor)"

def main():
    props = [json.loads(l) for l in open('/verif/properties.jsonl')]
    commits = subprocess.run(['git','-C','/repo','log','--format=%h %s'],capture_output=True,text=True).stdout.splitlines()
    hook_commits = [c.split()[0] for c in commits if c.split(' ',1)[1].startswith('verif hooks')]
    m = {
      "version": 1,
      "setup_cmd": "./run.sh build plain race asan",
      "hooks": {
        "guard": "verif",
        "enable": "go build -tags verif (done by /verif/run.sh; the harness module replaces github.com/jrhy/s3db with /repo)",
        "baseline_off_cmd": "cd /repo && GOFLAGS=-mod=mod GOPROXY=off go test -vet=off -count=1 ./...",
        "source_commits": hook_commits,
        "add_only": True,
      },
      "engines": [
        {"name":"verif harness","path":"/verif/harness","serves_properties":sorted(CHECKS),
         "kind_free_text":"Go binary (plain / -race / -asan builds) driving the real extension through SQL and the kv API against an instrumented in-memory object store; parent/worker processes; offline bucket decoder; reference models"},
      ],
      "checks": [],
      "not_applicable": [],
      "notes": "All checks: ./run.sh <ID> <tier>; VERIF_SEED selects the case list; known findings in /verif/known_findings.jsonl; seeded breaks in /verif/seeded/.",
    }
    for p in props:
        pid = p['id']
        if pid in CHECKS:
            c = CHECKS[pid]
            m["checks"].append({
              "property_id": pid,
              "quick_cmd": f"./run.sh {pid} quick",
              "thorough_cmd": f"./run.sh {pid} thorough",
              "evidence_file": f"/verif/evidence/{pid}.json",
              "replay_cmd_template": "./run.sh replay {path}",
              "engine": "verif harness",
              "level_claimed": {"category": c['level'], "text": c['text'], "design_ref": c['design']},
              "level_note": c['note'],
              "technique": c['technique'],
            })
        else:
            m["not_applicable"].append({"property_id": pid, "reason": NOT_BUILT})
    json.dump(m, open('/verif/MANIFEST.json','w'), indent=1)
    print("checks:", len(m["checks"]), "not_applicable:", len(m["not_applicable"]))

main()
