#!/bin/bash
# sweep.sh <tier> <seed...>   run every check at the given seeds; print one line per run; non-zero exit if any run is not silent
cd "$(dirname "$0")/.." || exit 3
tier=$1; shift
bad=0
for seed in "$@"; do
  for i in 01 02 03 04 05 06 07 08 09 10 11 12 13 14 15 16 17 18 19 20; do
    out=$(VERIF_SEED=$seed ./run.sh C$i $tier 2>&1); rc=$?
    line=$(echo "$out" | grep "tier=")
    echo "seed=$seed rc=$rc $line"
    if [ $rc -ne 0 ]; then bad=1; echo "$out" | grep -E "VIOLATION|sig=|INCONCL" | head -6; fi
  done
done
exit $bad
