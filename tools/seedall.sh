#!/bin/bash
# seedall.sh  regression over all seeded changes: each patch is applied to a scratch copy of the repository
# (VP_RUN_REPO, i.e. run this through `vp run --with-repo -- ./tools/seedall.sh`), its own property's quick check is
# run against that copy, and the copy is restored. Prints one line per change. Never touches /repo.
set -u
ROOT=$(cd "$(dirname "$0")/.." && pwd)
REPO=${VP_RUN_REPO:-${VERIF_REPO:-}}
[ -n "$REPO" ] && [ "$REPO" != /repo ] || { echo "needs VP_RUN_REPO or VERIF_REPO (a scratch copy of the repository)"; exit 3; }
export VERIF_REPO=$REPO
cd "$ROOT"
miss=0
for d in seeded/*/; do
  name=$(basename $d); id=${name%%-*}
  ( cd $REPO && git checkout -q -- . && git apply "$ROOT/$d/patch.diff" ) || { echo "$name patch does not apply"; continue; }
  out=$(VERIF_SEED=${VERIF_SEED:-1} ./run.sh $id quick 2>&1); rc=$?
  ( cd $REPO && git checkout -q -- . )
  sum=$(echo "$out" | grep "tier=" | sed 's/.*: //')
  sig=$(echo "$out" | grep -E "^  sig=" | head -1 | sed 's/^  sig=//')
  if [ $rc -eq 1 ]; then echo "$name caught by $id [$sum] $sig"; else echo "$name MISSED by $id rc=$rc [$sum]"; miss=1; fi
done
exit $miss
