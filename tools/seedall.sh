#!/bin/bash
# seedall.sh  regression over all seeded changes: each patch is applied to a scratch copy of the repository
# (VP_RUN_REPO, i.e. run this through `vp run --with-repo -- ./tools/seedall.sh`), its own property's quick check is
# run against that copy, and the copy is restored. Prints one line per change. Never touches /repo.
set -u
ROOT=$(cd "$(dirname "$0")/.." && pwd)
REPO=${VP_RUN_REPO:-${VERIF_REPO:-}}
[ -n "$REPO" ] && [ "$REPO" != /repo ] || { echo "needs VP_RUN_REPO or VERIF_REPO (a scratch copy of the repository)"; exit 3; }
export VERIF_REPO=$REPO
cd "$ROOT"
miss=0
for d in seeded/*/; do
  name=$(basename $d); own=${name%%-*}
  # the checks recorded as catching this change (seeded/<name>/checks.txt); the own property's check first
  ids=$(grep -oE "^ *C[0-9]+ caught" "$d/checks.txt" 2>/dev/null | awk '{print $1}' | sort -u | tr '\n' ' ')
  [ -n "$ids" ] || ids=$own
  ( cd $REPO && git checkout -q -- . && git apply "$ROOT/$d/patch.diff" ) || { echo "$name patch does not apply"; continue; }
  for id in $ids; do
    out=$(VERIF_SEED=${VERIF_SEED:-1} ./run.sh $id quick 2>&1); rc=$?
    sum=$(echo "$out" | grep "tier=" | sed 's/.*: //')
    sig=$(echo "$out" | grep -E "^  sig=" | head -1 | sed 's/^  sig=//')
    if [ $rc -eq 1 ]; then echo "$name caught by $id [$sum] $sig"; else echo "$name NO LONGER CAUGHT by $id rc=$rc [$sum]"; miss=1; fi
  done
  ( cd $REPO && git checkout -q -- . )
done
exit $miss
