#!/bin/bash
# run.sh <ID> [quick|thorough]   build the harness from /repo's current tree (tag verif) and run one check
# run.sh replay <path>           re-execute one recorded case
# run.sh build [flavours...]     build only
set -u
export GOFLAGS=-mod=mod GOPROXY=off
ROOT=$(cd "$(dirname "$0")" && pwd)
export VERIF_ROOT=$ROOT
cd "$ROOT/harness" || exit 3
BIN=$ROOT/work/bin
mkdir -p "$BIN" "$ROOT/evidence" "$ROOT/replays"
# The checks build against /repo's current working tree. A background run started with
# `vp run --with-repo` (or VERIF_REPO=<dir>) builds against that snapshot instead, so that
# edits made to /repo meanwhile cannot leak into it.
REPO=${VERIF_REPO:-${VP_RUN_REPO:-/repo}}
MODFLAG=""
if [ "$REPO" != /repo ]; then
  sed "s#=> /repo#=> $REPO#" go.mod > "$ROOT/work/go.alt.mod"
  cp go.sum "$ROOT/work/go.alt.sum"
  MODFLAG="-modfile=$ROOT/work/go.alt.mod"
fi
build() { # flavour
  local fl=$1 flags=""
  case $fl in
    plain) flags="" ;;
    race)  flags="-race" ;;
    asan)  flags="-asan" ;;
  esac
  local tmp="$BIN/.verif-$fl.$$"
  if ! go build $MODFLAG -tags verif $flags -o "$tmp" . >"$BIN/build-$fl.$$.log" 2>&1; then
    cat "$BIN/build-$fl.$$.log" >&2; rm -f "$tmp" "$BIN/build-$fl.$$.log"
    echo "BUILD-FAILED flavour=$fl" >&2
    return 3
  fi
  rm -f "$BIN/build-$fl.$$.log"
  mv -f "$tmp" "$BIN/verif-$fl"
}
cmd=${1:-}
case "$cmd" in
  build)
    shift
    for fl in "${@:-plain}"; do build "$fl" || exit 3; done
    exit 0 ;;
  replay)
    build plain || exit 3
    fl=$(python3 -c "import json,sys;print(json.load(open(sys.argv[1])).get('flavour') or 'plain')" "$2")
    [ "$fl" != plain ] && { build "$fl" || exit 3; }
    exec "$BIN/verif-$fl" replay "$2" ;;
  "")
    echo "usage: run.sh <ID> [quick|thorough]" >&2; exit 64 ;;
esac
id=$cmd
tier=${2:-${VERIF_TIER:-quick}}
export VERIF_TIER=$tier
build plain || exit 3
for fl in $("$BIN/verif-plain" flavours "$id"); do
  [ "$fl" = plain ] || build "$fl" || exit 3
done
shift; shift 2>/dev/null
exec "$BIN/verif-plain" check "$id" --tier "$tier" "$@"
