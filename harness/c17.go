package main

import (
	"context"
	"encoding/json"
	"fmt"
	"os"
	"sort"
	"strings"
	"time"

	"github.com/jrhy/s3db/kv"
	kvcrdt "github.com/jrhy/s3db/kv/crdt"

	"verifh/fs3"
)

func init() {
	register(&Check{
		ID:    "C17",
		Level: "exploration",
		Rule: "Go-level histories on the public kv API with the instrumented store passed directly (no hook): 2-4 handles on one prefix run 30-120 steps of Set / Tombstone / RemoveTombstones / Commit / Clone / re-Open with pairwise distinct, non-monotone times, branch factors 2,4,4096, in default, conflict-callback and custom-merge modes, with JSON version objects or the gob format (bucket seeded with a version object without kv_version), nodes stored with the default marshaler or with CustomMarshal=json.Marshal (a third of the cases); a quarter of the tombstones on a visible key carry exactly that value's time. " +
			"A state-based mirror (per handle: key -> value(time) | tombstone(since); join = earliest tombstone, else latest value; purge local to the handle) is compared after every step with Get on every key and a full cursor walk, at sampled steps with Diff between two handles and with TraceHistory (starts at the current value, only values ever set for that key, strictly decreasing times); the conflict callback must only see two different non-tombstone values. " +
			"non-trivial = a key got a value and a tombstone from different handles and at least one merge of >=2 versions happened; distinct = hash of the operation list",
		Flavours: []string{"plain"},
		Cases: func(tier string) int {
			if tier == "thorough" {
				return 6000
			}
			return 600
		},
		MinNT: func(tier string) int {
			if tier == "thorough" {
				return 2000
			}
			return 200
		},
		Run: runC17,
		Assumptions: []string{
			"times are pairwise distinct (ties are outside the statement)",
			"TraceHistory hands a tombstone over as nil, or as the zero value when nodes are stored with a JSON marshaler; both are taken as 'the tombstone', not as a value",
			"how often the conflict callback fires for a real conflict depends on merge order and is not demanded",
		},
	})
}

type kvEntry struct {
	Val  string
	T    int64 // set time (unix seconds)
	Tomb int64 // tombstone since; 0 = value
}

type kvState map[string]kvEntry

func (s kvState) copy() kvState {
	o := kvState{}
	for k, v := range s {
		o[k] = v
	}
	return o
}

func kvJoin1(a, b kvEntry) kvEntry {
	switch {
	case a.Tomb != 0 && b.Tomb != 0:
		if a.Tomb < b.Tomb {
			return a
		}
		return b
	case a.Tomb != 0:
		return a
	case b.Tomb != 0:
		return b
	case a.T >= b.T:
		return a
	}
	return b
}

func kvJoin(a, b kvState) kvState {
	o := a.copy()
	for k, v := range b {
		if e, ok := o[k]; ok {
			o[k] = kvJoin1(e, v)
		} else {
			o[k] = v
		}
	}
	return o
}

func (s kvState) visible() map[string]string {
	o := map[string]string{}
	for k, v := range s {
		if v.Tomb == 0 {
			o[k] = v.Val
		}
	}
	return o
}

type kvVersion struct {
	id    int
	state kvState
}

type kvHandle struct {
	db      *kv.DB
	state   kvState
	sources []int // model version ids this handle is based on
	name    string
	dirty   bool
}

func runC17(c *Case) {
	r := c.R
	ctx := context.Background()
	st := newStore()
	defer dropStore(st)
	mode := c.Index % 3 // 0 default, 1 conflict callback, 2 custom merge
	gobFormat := (c.Index/3)%4 == 3
	// a third of the cases store nodes with the JSON marshaler instead of the default one
	jsonNodes := (c.Index/12)%3 == 2
	bf := uint([]int{2, 4, 4096, 3}[r.Intn(4)])
	nh := r.Range(2, 4)
	nkeys := r.Range(3, 12)
	var log []string
	var conflictProblems []string
	conflicts := 0
	fail := func(sig, msg string) {
		tail := log
		if len(tail) > 80 && os.Getenv("C17_DEBUG") == "" {
			tail = tail[len(tail)-80:]
		}
		c.Violate("C17:"+sig, msg, map[string]interface{}{"mode": mode, "gob": gobFormat, "json_nodes": jsonNodes, "branch_factor": bf, "log_tail": tail})
	}
	cfg := func(client string) kv.Config {
		cf := kv.Config{
			Storage:      &kv.S3BucketInfo{EndpointURL: fs3.Endpoint(st.Name, client), BucketName: "b", Prefix: "kv"},
			KeysLike:     "key",
			ValuesLike:   "value",
			BranchFactor: bf,
		}
		if jsonNodes {
			cf.CustomMarshal = json.Marshal
			cf.CustomUnmarshal = json.Unmarshal
		}
		switch mode {
		case 1:
			cf.OnConflictMerged = func(key, v1, v2 interface{}) error {
				conflicts++
				if v1 == nil || v2 == nil {
					conflictProblems = append(conflictProblems, fmt.Sprintf("conflict callback for key %v with a nil side: %v / %v", key, v1, v2))
				} else if fmt.Sprint(v1) == fmt.Sprint(v2) {
					conflictProblems = append(conflictProblems, fmt.Sprintf("conflict callback for key %v with equal values %v", key, v1))
				}
				return nil
			}
		case 2:
			cf.CustomMerge = func(key interface{}, v1, v2 kvcrdt.Value) kvcrdt.Value {
				return *kvcrdt.LastWriteWins(&v1, &v2)
			}
		}
		return cf
	}
	seedSet := false
	clock := int64(100)
	now := func() time.Time { clock++; return time.Unix(clock, 0) }
	// model of the bucket: current versions
	var current []kvVersion
	nextVer := 0
	merges := 0
	open := func(h *kvHandle) error {
		db, err := kv.Open(ctx, st.Client(h.name).View(false), cfg(h.name), kv.OpenOptions{}, now())
		if err != nil {
			return err
		}
		h.db = db
		// model: join of all current versions; a merge of >=2 is committed
		s := kvState{}
		var src []int
		for _, v := range current {
			s = kvJoin(s, v.state)
			src = append(src, v.id)
		}
		h.state = s
		h.sources = src
		h.dirty = false
		if len(current) >= 2 {
			merges++
			nextVer++
			current = []kvVersion{{nextVer, s.copy()}}
			h.sources = []int{nextVer}
		}
		return nil
	}
	commit := func(h *kvHandle) error {
		if _, err := h.db.Commit(ctx); err != nil {
			return err
		}
		if !h.dirty {
			return nil
		}
		nextVer++
		var rest []kvVersion
		for _, v := range current {
			keep := true
			for _, s := range h.sources {
				if v.id == s {
					keep = false
				}
			}
			if keep {
				rest = append(rest, v)
			}
		}
		current = append(rest, kvVersion{nextVer, h.state.copy()})
		h.sources = []int{nextVer}
		h.dirty = false
		return nil
	}
	if gobFormat {
		// seed: a JSON version object without kv_version makes later commits use gob
		seed := &kvHandle{name: "seed"}
		if err := open(seed); err != nil {
			fail("open-error", err.Error())
			return
		}
		seed.db.Set(ctx, time.Unix(50, 0), "k0", "seed")
		seed.state["k0"] = kvEntry{Val: "seed", T: 50}
		seedSet = true
		seed.dirty = true
		if err := commit(seed); err != nil {
			fail("commit-error", err.Error())
			return
		}
		for _, k := range st.Keys("kv/root/current/") {
			b, _ := st.GetRaw(k)
			var m map[string]interface{}
			if json.Unmarshal(b, &m) == nil {
				delete(m, "kv_version")
				nb, _ := json.Marshal(m)
				st.PutRaw(k, nb)
			}
		}
	}
	hs := make([]*kvHandle, nh)
	defer func() {
		for _, h := range hs {
			if h != nil && h.db != nil {
				h.db.Cancel()
			}
		}
	}()
	for i := range hs {
		hs[i] = &kvHandle{name: fmt.Sprintf("h%d", i)}
		if err := open(hs[i]); err != nil {
			fail("open-error", err.Error())
			return
		}
	}
	everSet := map[string]map[string]bool{} // key -> values ever set
	if seedSet {
		everSet["k0"] = map[string]bool{"seed": true}
	}
	gotVal, gotTomb := map[string]map[int]bool{}, map[string]map[int]bool{}
	steps := r.Range(30, 120)
	times := r.Perm(steps + 10)
	compare := func(h *kvHandle, after string) bool {
		// Get on every key
		for i := 0; i < nkeys; i++ {
			k := fmt.Sprintf("k%d", i)
			var got string
			ok, err := h.db.Get(ctx, k, &got)
			if err != nil {
				fail("get-error", fmt.Sprintf("after %s: Get(%s) on %s: %v", after, k, h.name, err))
				return false
			}
			e, has := h.state[k]
			wantOK := has && e.Tomb == 0
			c.Count("gets_compared", 1)
			// the form of Get that also hands over the entry's times agrees about presence
			var cv kvcrdt.Value
			if ok2, err := h.db.Get(ctx, k, &cv); err != nil || ok2 != wantOK {
				fail("get-differs:metadata-form", fmt.Sprintf("after %s: %s.Get(%s, *crdt.Value) = (present=%v, %v); mirror has %+v (present=%v)", after, h.name, k, ok2, err, e, has))
				return false
			}
			if ok != wantOK || (ok && got != e.Val) {
				kind := "value"
				if has && e.Tomb != 0 {
					kind = "tombstoned-key-visible"
				} else if !ok {
					kind = "value-missing"
				}
				fail("get-differs:"+kind, fmt.Sprintf("after %s: %s.Get(%s) = (%q, %v); mirror has %+v (present=%v)", after, h.name, k, got, ok, e, has))
				return false
			}
		}
		// full cursor walk
		cur, err := h.db.Cursor(ctx)
		if err != nil {
			fail("cursor-error", err.Error())
			return false
		}
		if err := cur.Min(ctx); err != nil {
			fail("cursor-error", err.Error())
			return false
		}
		seen := map[string]bool{}
		last := ""
		for {
			k, v, ok := cur.Get()
			if !ok {
				break
			}
			ks := k.(string)
			if last != "" && ks <= last {
				fail("cursor-order", fmt.Sprintf("after %s: cursor on %s yields %s after %s", after, h.name, ks, last))
				return false
			}
			last = ks
			seen[ks] = true
			e, has := h.state[ks]
			if !has {
				fail("cursor-extra-entry", fmt.Sprintf("after %s: cursor on %s yields %s which the mirror does not hold", after, h.name, ks))
				return false
			}
			if (v.TombstoneSinceEpochNanos != 0) != (e.Tomb != 0) {
				fail("cursor-tombstone-differs", fmt.Sprintf("after %s: entry %s on %s: tombstoned=%v, mirror %+v", after, ks, h.name, v.TombstoneSinceEpochNanos != 0, e))
				return false
			}
			if e.Tomb != 0 && v.TombstoneSinceEpochNanos != e.Tomb*int64(time.Second) {
				fail("cursor-tombstone-time", fmt.Sprintf("after %s: tombstone of %s on %s is since %d, mirror keeps the earliest %d", after, ks, h.name, v.TombstoneSinceEpochNanos/int64(time.Second), e.Tomb))
				return false
			}
			if e.Tomb == 0 && (fmt.Sprint(v.Value) != e.Val || v.ModEpochNanos != e.T*int64(time.Second)) {
				fail("cursor-value-differs", fmt.Sprintf("after %s: entry %s on %s is %v@%d, mirror %+v", after, ks, h.name, v.Value, v.ModEpochNanos/int64(time.Second), e))
				return false
			}
			if err := cur.Forward(ctx); err != nil {
				fail("cursor-error", err.Error())
				return false
			}
		}
		for k := range h.state {
			if !seen[k] {
				fail("cursor-missing-entry", fmt.Sprintf("after %s: cursor on %s does not yield %s (mirror %+v)", after, h.name, k, h.state[k]))
				return false
			}
		}
		c.Count("cursor_walks", 1)
		return true
	}
	var canon strings.Builder
	for i := 0; i < steps && c.Res.Status != "violated"; i++ {
		hi := r.Intn(nh)
		h := hs[hi]
		k := fmt.Sprintf("k%d", r.Intn(nkeys))
		t := int64(1000 + times[i])
		var desc string
		switch x := r.Intn(100); {
		case x < 40:
			v := fmt.Sprintf("v%d.%d", hi, i)
			desc = fmt.Sprintf("%s.Set(@%d, %s, %s)", h.name, t, k, v)
			if err := h.db.Set(ctx, time.Unix(t, 0), k, v); err != nil {
				fail("set-error", desc+": "+err.Error())
				return
			}
			if everSet[k] == nil {
				everSet[k] = map[string]bool{}
			}
			everSet[k][v] = true
			if gotVal[k] == nil {
				gotVal[k] = map[int]bool{}
			}
			gotVal[k][hi] = true
			nv := kvEntry{Val: v, T: t}
			e, ok := h.state[k]
			if ok {
				nv = kvJoin1(nv, e)
			}
			if !ok || nv != e {
				// like kv, the mirror is dirty only when the entry really changed
				h.dirty = true
			}
			h.state[k] = nv
		case x < 55:
			if e, ok := h.state[k]; ok && e.Tomb == 0 && r.Intn(4) == 0 {
				// a tombstone carrying exactly the time of the value it hides (no tie: a
				// tombstone beats every value regardless of time)
				t = e.T
				c.Count("tombstones_at_the_value_time", 1)
			}
			desc = fmt.Sprintf("%s.Tombstone(@%d, %s)", h.name, t, k)
			if err := h.db.Tombstone(ctx, time.Unix(t, 0), k); err != nil {
				fail("tombstone-error", desc+": "+err.Error())
				return
			}
			if gotTomb[k] == nil {
				gotTomb[k] = map[int]bool{}
			}
			gotTomb[k][hi] = true
			nv := kvEntry{Tomb: t}
			e, ok := h.state[k]
			if ok {
				nv = kvJoin1(nv, e)
			}
			if !ok || nv != e {
				h.dirty = true
			}
			h.state[k] = nv
		case x < 62:
			cut := int64(1000 + r.Intn(steps+10))
			desc = fmt.Sprintf("%s.RemoveTombstones(before @%d)", h.name, cut)
			if err := h.db.RemoveTombstones(ctx, time.Unix(cut, 0)); err != nil {
				fail("remove-tombstones-error", desc+": "+err.Error())
				return
			}
			for kk, e := range h.state {
				if e.Tomb != 0 && e.Tomb < cut {
					delete(h.state, kk)
					h.dirty = true
				}
			}
		case x < 80:
			desc = h.name + ".Commit()"
			if err := commit(h); err != nil {
				fail("commit-error", desc+": "+err.Error())
				return
			}
		case x < 92:
			desc = h.name + " Commit + re-Open"
			if err := commit(h); err != nil {
				fail("commit-error", desc+": "+err.Error())
				return
			}
			h.db.Cancel()
			if err := open(h); err != nil {
				fail("open-error", desc+": "+err.Error())
				return
			}
		case x < 95 && !h.dirty:
			// a clone commits a change; the handle it was cloned from still names the version it
			// stands for (Roots) - the clone then takes the handle's place
			roots0, rerr := h.db.Roots()
			cl, err := h.db.Clone(ctx)
			if err != nil {
				fail("clone-error", err.Error())
				return
			}
			old := h.db
			h.db = cl
			v := fmt.Sprintf("v%d.%dc", hi, i)
			desc = fmt.Sprintf("%s: clone.Set(@%d, %s, %s); clone.Commit(); Roots() of the original", h.name, t, k, v)
			if err := h.db.Set(ctx, time.Unix(t, 0), k, v); err != nil {
				fail("set-error", desc+": "+err.Error())
				return
			}
			if everSet[k] == nil {
				everSet[k] = map[string]bool{}
			}
			everSet[k][v] = true
			nv := kvEntry{Val: v, T: t}
			e, ok := h.state[k]
			if ok {
				nv = kvJoin1(nv, e)
			}
			if !ok || nv != e {
				h.dirty = true
			}
			h.state[k] = nv
			if err := commit(h); err != nil {
				fail("commit-error", desc+": "+err.Error())
				return
			}
			roots1, rerr1 := old.Roots()
			c.Count("roots_after_clone_commit", 1)
			if rerr == nil && (rerr1 != nil || fmt.Sprint(roots0) != fmt.Sprint(roots1)) {
				fail("roots-changed-by-clone-commit", fmt.Sprintf("%s: Roots() of the original handle was %v before its clone committed and is %v (%v) afterwards", desc, roots0, roots1, rerr1))
				return
			}
			old.Cancel()
		default:
			desc = h.name + ".Clone() replaces " + h.name
			cl, err := h.db.Clone(ctx)
			if err != nil {
				fail("clone-error", err.Error())
				return
			}
			// mutate the original after cloning: the clone must be independent
			probeKey := fmt.Sprintf("k%d", r.Intn(nkeys))
			h.db.Set(ctx, time.Unix(t+100000, 0), probeKey, "must-not-leak")
			h.db.Cancel()
			h.db = cl
		}
		log = append(log, desc)
		if n := len(st.Keys("kv/root/current/")); n != len(current) && os.Getenv("C17_DEBUG") != "" {
			log = append(log, fmt.Sprintf("   (bucket has %d current versions, mirror %d)", n, len(current)))
		}
		fmt.Fprintf(&canon, "%s;", desc)
		c.Count("steps", 1)
		if !compare(h, desc) {
			return
		}
		for _, p := range conflictProblems {
			fail("conflict-callback", p)
			return
		}
		// Diff between two handles
		if r.Intn(4) == 0 {
			a, b := hs[r.Intn(nh)], hs[r.Intn(nh)]
			got := map[string]string{}
			err := a.db.Diff(ctx, b.db, func(key, mine, theirs interface{}) (bool, error) {
				got[key.(string)] = fmt.Sprintf("%v|%v", mine, theirs)
				return true, nil
			})
			if err != nil {
				fail("diff-error", fmt.Sprintf("%s.Diff(%s): %v (sizes %d and %d, heights %d and %d, same handle %v, entries in mirror %d and %d)", a.name, b.name, err, a.db.Size(), b.db.Size(), a.db.Height(), b.db.Height(), a == b, len(a.state), len(b.state)))
				return
			}
			va, vb := a.state.visible(), b.state.visible()
			want := map[string]string{}
			for kk, v := range va {
				if w, ok := vb[kk]; !ok {
					want[kk] = v + "|<nil>"
				} else if w != v {
					want[kk] = v + "|" + w
				}
			}
			for kk, w := range vb {
				if _, ok := va[kk]; !ok {
					want[kk] = "<nil>|" + w
				}
			}
			c.Count("diffs_compared", 1)
			if fmt.Sprint(sortedMap(got)) != fmt.Sprint(sortedMap(want)) {
				fail("diff-differs", fmt.Sprintf("%s.Diff(%s) reports %v; keys whose visible value differs: %v", a.name, b.name, sortedMap(got), sortedMap(want)))
				return
			}
		}
		// TraceHistory on a committed handle
		if r.Intn(5) == 0 && !h.dirty {
			var ts []int64
			var vals []string
			err := h.db.TraceHistory(ctx, k, time.Time{}, func(when time.Time, value interface{}) (bool, error) {
				ts = append(ts, when.Unix())
				vals = append(vals, fmt.Sprint(value))
				return true, nil
			})
			if err != nil {
				// history may have been cut by nothing here (no vacuum); an error is a violation
				fail("trace-error", fmt.Sprintf("TraceHistory(%s) on %s: %v", k, h.name, err))
				return
			}
			c.Count("traces_checked", 1)
			e, has := h.state[k]
			if has && e.Tomb == 0 {
				if len(vals) == 0 || vals[0] != e.Val {
					fail("trace-start", fmt.Sprintf("TraceHistory(%s) on %s starts with %v, current value is %q", k, h.name, vals, e.Val))
					return
				}
			}
			for j, v := range vals {
				// a tombstone in the history is handed over as nil (default marshaler) or, decoded from
				// "v":null by the JSON marshaler, as the zero value ""; no step ever sets ""
				if v != "<nil>" && !(jsonNodes && v == "") && !everSet[k][v] {
					fail("trace-foreign-value", fmt.Sprintf("TraceHistory(%s) yields %q which was never set for that key", k, v))
					return
				}
				if j > 0 && ts[j] >= ts[j-1] {
					fail("trace-order", fmt.Sprintf("TraceHistory(%s) times not strictly decreasing: %v", k, ts))
					return
				}
			}
		}
	}
	for _, h := range hs {
		h.db.Cancel()
	}
	c.Count("conflict_callbacks", int64(conflicts))
	c.Count("merges_of_several_versions", int64(merges))
	mixed := false
	for k, vs := range gotVal {
		for hv := range vs {
			for ht := range gotTomb[k] {
				if hv != ht {
					mixed = true
				}
			}
		}
	}
	if mixed && merges > 0 {
		c.NonTrivial(canon.String())
	}
	if gobFormat {
		c.Count("cases_gob_root_format", 1)
		gobSeen := false
		for _, k := range st.Keys("kv/root/") {
			b, _ := st.GetRaw(k)
			if len(b) > 0 && b[0] != '{' {
				gobSeen = true
			}
		}
		if gobSeen {
			c.Count("cases_with_gob_version_objects", 1)
		}
	}
	if c.Index < 6 {
		l := log
		if len(l) > 14 {
			l = l[:14]
		}
		c.Res.Sample = map[string]interface{}{"mode": []string{"default", "conflict-callback", "custom-merge"}[mode], "gob": gobFormat, "handles": nh, "branch_factor": bf, "ops": l}
	}
}

func sortedMap(m map[string]string) []string {
	var out []string
	for k, v := range m {
		out = append(out, k+"="+v)
	}
	sort.Strings(out)
	return out
}
