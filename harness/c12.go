package main

import (
	"fmt"
	"strings"

	"verifh/fs3"
	"verifh/walk"
)

func init() {
	register(&Check{
		ID:    "C12",
		Level: "exploration",
		Rule: "random histories (1-3 writers, inserts, updates, deletes, re-inserts, merges of forks, entries_per_node 2,3,4,4096 so that identical subtrees are skipped) record (version, rows) after every step; for ordered pairs (A,B) of recorded versions - all pairs up to 12 versions, 80 sampled pairs beyond, 'to' omitted (= current) included - the rows R of s3db_changes(from=A,to=B) must satisfy R subset-of rows(B) with identical values and diff(rows(A),rows(B)) subset-of R, and the query must not fail; a third of the pairs are also read as the inner table of a join (three outer rows: the same rows three times); a changes table created once with 'to' omitted is queried after every step of writer 0 whose view is all the bucket holds, and must return the current rows each time; " +
			"for a sample of pairs the diff is re-run with one injected storage error at EVERY request position of the diff: each run must end in an error or satisfy the same two inclusions. " +
			"non-trivial = a pair whose versions differ in >=1 row and where B lacks a row of A (a delete between them); distinct = hash of (rows(A), rows(B))",
		Flavours: []string{"plain"},
		Cases: func(tier string) int {
			if tier == "thorough" {
				return 1500
			}
			return 100
		},
		MinNT: func(tier string) int {
			if tier == "thorough" {
				return 700
			}
			return 40
		},
		Run: runC12,
		Assumptions: []string{
			"R = diff is not demanded: unchanged rows whose entry metadata changed may appear",
			"fault positions are exhaustive per sampled pair (every request of that diff), not over pairs",
		},
	})
}

func runC12(c *Case) {
	r := c.R
	nw := r.Range(1, 3)
	nkeys := r.Range(4, 40)
	epn := []int{4096, 2, 3, 4}[c.Index%4]
	w, err := newWorld(c, nw, epn)
	defer w.close()
	if err != nil {
		c.Violate("C12:create", err.Error(), nil)
		return
	}
	h := &vhistory{w: w}
	fail := func(sig, msg string) { c.Violate("C12:"+sig, msg, w.log) }
	steps := r.Range(10, 36)
	times := r.Perm(steps + 5)
	if r.Bool() {
		// bulk load first so that trees are deep and share subtrees
		w.begin(0)
		for k := 1; k <= nkeys; k += 2 {
			w.exec(HStmt{W: 0, Kind: "ins", Key: k, T: 1, Cols: map[string]string{"a": fmt.Sprintf("t:bulk%d", k)}})
		}
		w.commitTx(0)
		for wi := 1; wi < nw; wi++ {
			w.refresh(wi)
		}
	}
	// one long-lived changes table on writer 0's table, from nothing to the current version ('to'
	// omitted): every time it is queried it must return exactly the rows writer 0 sees then
	live := tname(c, "live")
	if err := w.ws[0].conn.Exec(fmt.Sprintf("create virtual table %s using s3db_changes (table='%s', from='[]')", live, w.ws[0].table)); err != nil {
		fail("query-error", "creating a changes table with 'to' omitted: "+err.Error())
		return
	}
	defer w.ws[0].conn.Exec("drop table " + live)
	for i := 0; i < steps; i++ {
		wi := r.Intn(nw)
		switch x := r.Intn(100); {
		case x < 80:
			if _, err := w.exec(genVStmt(r, wi, i, nkeys, 10+times[i])); err != nil {
				fail("statement-error", err.Error())
				return
			}
		default:
			if err := w.refresh(wi); err != nil {
				fail("refresh-error", err.Error())
				return
			}
		}
		if snap, err := h.record(c, i, wi); err != nil {
			fail("record-error", err.Error())
			return
		} else if wi == 0 && snap != nil && snap.Bucket1 {
			// ('to' omitted is what the bucket holds now; compared when that is exactly writer 0's view)
			rows, err := w.ws[0].conn.Rows("select * from " + live)
			c.Count("long_lived_table_queries", 1)
			if err != nil {
				fail("query-error", fmt.Sprintf("step %d: the long-lived changes table ('to' omitted) failed: %v", i, err))
				return
			}
			if d := firstDiff(snap.Dump, sortedRows(rows)); d != "" {
				fail("stale-current-version", fmt.Sprintf("step %d: a changes table created earlier with 'to' omitted does not return the current rows (rows vs changes from nothing): %s", i, d))
				return
			}
		}
		// a read-only observer over the unmerged versions: its version list has several names
		if nw >= 2 && r.Intn(4) == 0 {
			ro := OpenConn("obs")
			rt := tname(c, "obs")
			if err := ro.Create(TableSpec{Name: rt, Cols: "k PRIMARY KEY, a, b, c", Store: w.st.Name, Client: fmt.Sprintf("obs%d", i), Prefix: w.prefix, EPN: epn, ReadOnly: true}); err == nil {
				raw, e1 := ro.Scalar("select s3db_version('" + rt + "')")
				d, e2 := ro.Dump(rt)
				if e1 == nil && e2 == nil {
					s := vsnap{Step: i, W: -1, Raw: strings.TrimPrefix(raw, "t:"), Names: parseVersionList(raw), Dump: d, ByKey: dumpByKey(d)}
					h.snaps = append(h.snaps, s)
					if len(s.Names) >= 2 {
						c.Count("multi_version_snapshots", 1)
						// and each of its members alone, so that subsets of a multi-version list get paired with it
						for _, n := range s.Names {
							if t, err := openVersions(w.st, fmt.Sprintf("obsm%d", i), w.prefix, []string{n}); err == nil {
								if md, err := scanKV(t, hcols); err == nil {
									h.snaps = append(h.snaps, vsnap{Step: i, W: -1, Raw: `["` + n + `"]`, Names: []string{n}, Dump: md, ByKey: dumpByKey(md)})
									// the diff from nothing to this member, asked for through the observer's
									// multi-version table, is the member's rows (not those of the merged view)
									ct := tname(c, "obschg")
									if err := ro.Exec(fmt.Sprintf("create virtual table %s using s3db_changes (table='%s', from='[]', to='[\"%s\"]')", ct, rt, n)); err == nil {
										rows, err := ro.Rows("select * from " + ct)
										ro.Exec("drop table " + ct)
										c.Count("diffs_through_multi_version_table", 1)
										if err != nil {
											fail("diff-error:through-multi-version-table", fmt.Sprintf("s3db_changes(from=[], to=[%s]) through a read-only table showing %v: %v", n, s.Names, err))
										} else if d := firstDiff(md, sortedRows(rows)); d != "" {
											fail("diff-wrong:through-multi-version-table", fmt.Sprintf("s3db_changes(from=[], to=[%s]) through a read-only table showing %v differs from the member's rows (rows vs diff): %s", n, s.Names, d))
										}
									}
								}
							}
						}
					}
				}
			}
			ro.Close()
		}
	}
	// distinct versions only
	var vs []vsnap
	seen := map[string]bool{}
	for _, s := range h.snaps {
		if !seen[s.Raw] {
			seen[s.Raw] = true
			vs = append(vs, s)
		}
	}
	type pair struct{ a, b int }
	var pairs []pair
	if len(vs) <= 12 {
		for a := range vs {
			for b := range vs {
				pairs = append(pairs, pair{a, b})
			}
		}
	} else {
		for i := 0; i < 80; i++ {
			pairs = append(pairs, pair{r.Intn(len(vs)), r.Intn(len(vs))})
		}
	}
	// the querying connection: writer 0 refreshed, so its table is loaded
	q := w.ws[0]
	client := w.st.Client(q.client)
	var canon strings.Builder
	nontrivial := false
	// check evaluates the two inclusions; returns "" or a description
	check := func(A, B *vsnap, rows []string) (string, string) {
		R := dumpByKey(rows)
		for k, row := range R {
			if B.ByKey[k] != row {
				want := B.ByKey[k]
				if want == "" {
					want = "(no such row)"
				}
				return "reported-row-not-in-to", fmt.Sprintf("s3db_changes returned %q but the 'to' version holds %q", row, want)
			}
		}
		for k, row := range B.ByKey {
			if A.ByKey[k] != row {
				if _, ok := R[k]; !ok {
					return "differing-row-missing", fmt.Sprintf("row %q of the 'to' version differs from 'from' (%q) but is not reported", row, A.ByKey[k])
				}
			}
		}
		return "", ""
	}
	joinToo := false
	runDiff := func(A, B *vsnap, omitTo bool) ([]string, error) {
		ct := tname(c, "chg")
		stmt := fmt.Sprintf("create virtual table %s using s3db_changes (table='%s', from='%s', to='%s')", ct, q.table, A.Raw, B.Raw)
		if omitTo {
			stmt = fmt.Sprintf("create virtual table %s using s3db_changes (table='%s', from='%s')", ct, q.table, A.Raw)
		}
		if err := q.conn.Exec(stmt); err != nil {
			return nil, fmt.Errorf("create: %w", err)
		}
		defer q.conn.Exec("drop table " + ct)
		rows, err := q.conn.Rows("select * from " + ct)
		if err == nil && joinToo {
			// the same diff as the inner table of a join: once per row of the outer table
			jr, jerr := q.conn.Rows("select o.x, c.* from (select 1 as x union all select 2 union all select 3) o cross join " + ct + " c")
			c.Count("diffs_as_inner_table_of_a_join", 1)
			if jerr != nil {
				return rows, fmt.Errorf("as the inner table of a join: %w", jerr)
			}
			for x := 1; x <= 3; x++ {
				var part []string
				pre := fmt.Sprintf("i:%d|", x)
				for _, row := range jr {
					if strings.HasPrefix(row, pre) {
						part = append(part, strings.TrimPrefix(row, pre))
					}
				}
				// (not necessarily the rows of the scan above: unchanged rows may or may not be reported)
				if sig, msg := check(A, B, part); sig != "" {
					return rows, fmt.Errorf("JOINDIFF as the inner table of a join, for outer row %d of 3 (%d rows; %d on its own): %s: %s", x, len(part), len(rows), sig, msg)
				}
			}
		}
		return rows, err
	}
	faultBudget := 3
	for _, p := range pairs {
		if c.Res.Status == "violated" {
			break
		}
		A, B := &vs[p.a], &vs[p.b]
		client.ResetCounters()
		rows, err := runDiff(A, B, false)
		reqs, _ := client.Counters()
		c.Count("pairs_diffed", 1)
		desc := fmt.Sprintf("from %s (step %d) to %s (step %d)", A.Raw, A.Step, B.Raw, B.Step)
		if err == nil && r.Intn(3) == 0 {
			joinToo = true
			_, err = runDiff(A, B, false)
			joinToo = false
			if err != nil && strings.Contains(err.Error(), "JOINDIFF") {
				fail("join-differs", "s3db_changes "+desc+": "+strings.Replace(err.Error(), "JOINDIFF ", "", 1))
				break
			}
		}
		if err != nil {
			fail("query-error", fmt.Sprintf("s3db_changes %s failed without any fault: %v", desc, err))
			break
		}
		if sig, msg := check(A, B, rows); sig != "" {
			fail(sig, desc+": "+msg)
			break
		}
		differ, lacks := false, false
		for k, row := range B.ByKey {
			if A.ByKey[k] != row {
				differ = true
			}
		}
		for k := range A.ByKey {
			if _, ok := B.ByKey[k]; !ok {
				lacks = true
			}
		}
		if differ && lacks {
			nontrivial = true
			c.Count("pairs_with_delete_between", 1)
			fmt.Fprintf(&canon, "%s>%s;", shortHash(strings.Join(A.Dump, "\n")), shortHash(strings.Join(B.Dump, "\n")))
		}
		c.Count("rows_reported", int64(len(rows)))
		// single storage fault at every request position of this diff
		if differ && faultBudget > 0 && reqs > 0 && reqs <= 80 {
			faultBudget--
			c.Count("pairs_fault_swept", 1)
			for pos := 1; pos <= reqs; pos++ {
				client.ResetCounters()
				client.AddFault(fs3.Fault{AtReq: pos, Action: "error"})
				frows, ferr := runDiff(A, B, false)
				client.ClearFaults()
				c.Count("faulted_diffs", 1)
				if ferr != nil {
					c.Count("faulted_diffs_error", 1)
					continue
				}
				if sig, msg := check(A, B, frows); sig != "" {
					fail("partial-answer-under-fault:"+sig, fmt.Sprintf("%s with a storage error at request %d of %d: the query reported success but %s", desc, pos, reqs, msg))
					break
				}
				c.Count("faulted_diffs_complete", 1)
				if c.Verbose {
					var last fs3.Event
					for _, ev := range w.st.Log() {
						if ev.Res == "fault" {
							last = ev
						}
					}
					fmt.Printf("   survived fault: pos %d/%d %s %s\n", pos, reqs, last.Op, last.Key)
				}
			}
		}
	}
	// 'to' omitted = current contents of the bucket
	if c.Res.Status != "violated" && len(vs) > 0 {
		for wi := range w.ws {
			w.refresh(wi)
		}
		w.refresh(0)
		cur, err := h.record(c, steps, 0)
		if err == nil && cur != nil && cur.Bucket1 {
			for k := 0; k < 4; k++ {
				A := &vs[r.Intn(len(vs))]
				rows, err := runDiff(A, cur, true)
				c.Count("pairs_to_omitted", 1)
				if err != nil {
					fail("query-error", fmt.Sprintf("s3db_changes from %s with 'to' omitted failed: %v", A.Raw, err))
					break
				}
				if sig, msg := check(A, cur, rows); sig != "" {
					fail(sig+":to-omitted", fmt.Sprintf("from %s, 'to' omitted: %s", A.Raw, msg))
					break
				}
			}
		}
	}
	// a 'from' version whose objects are gone (the well-formed "no such object" answer a vacuum
	// leaves behind) must fail the query, never pass for an empty version
	if c.Res.Status != "violated" && len(vs) >= 2 {
		base := walk.Base(w.prefix)
		cur := &vs[len(vs)-1]
		if last, err := h.record(c, steps+1, 0); err == nil && last != nil {
			cur = last
		}
		for trial := 0; trial < 2; trial++ {
			A := &vs[r.Intn(len(vs))]
			if len(A.Names) != 1 || A.Raw == cur.Raw || len(A.Dump) == 0 {
				continue
			}
			snap := w.st.Snapshot()
			name := A.Names[0]
			what := ""
			if trial == 0 {
				w.st.DelRaw(base + "root/merged/" + name)
				w.st.DelRaw(base + "root/current/" + name)
				what = "version object"
			} else {
				b, _, ok := walk.FindVersion(snap, base, name)
				if !ok {
					continue
				}
				rt, err := walk.ParseRoot(b)
				if err != nil || rt.Link == nil {
					continue
				}
				// only if the current version does not use that very node
				if walk.Reach(snap, base, cur.Names[0])[*rt.Link] {
					continue
				}
				w.st.DelRaw(base + "node/" + *rt.Link)
				what = "root node object"
			}
			rows, err := runDiff(A, cur, false)
			w.st.Restore(snap)
			c.Count("vanished_version_diffs", 1)
			if err == nil {
				fail("vanished-version-read-as-empty", fmt.Sprintf("the %s of 'from' version %s was removed (as a vacuum does); s3db_changes reported success with %d rows instead of failing", what, A.Raw, len(rows)))
				break
			}
		}
	}
	// the table declared again over the same prefix with one more column: setting only that column
	// of a row written under the old declaration changes the row, and the diff has to say so
	if c.Res.Status != "violated" {
		wc := OpenConn("wide")
		wt := tname(c, "wide")
		if err := wc.Create(TableSpec{Name: wt, Cols: "k PRIMARY KEY, a, b, c, d", Store: w.st.Name, Client: "wide", Prefix: w.prefix, EPN: epn}); err == nil {
			keys, _ := wc.Rows("select k from " + wt)
			v1, e1 := wc.Scalar("select s3db_version('" + wt + "')")
			if len(keys) > 0 && e1 == nil {
				k := keys[r.Intn(len(keys))]
				wc.SetWriteTime(5000)
				n, err := wc.ExecN("update " + wt + " set d = 'added' where k = " + strings.TrimPrefix(k, "i:"))
				v2, e2 := wc.Scalar("select s3db_version('" + wt + "')")
				if err == nil && n == 1 && e2 == nil {
					ct := tname(c, "widechg")
					if err := wc.Exec(fmt.Sprintf("create virtual table %s using s3db_changes (table='%s', from='%s', to='%s')", ct, wt, strings.TrimPrefix(v1, "t:"), strings.TrimPrefix(v2, "t:"))); err == nil {
						rows, err := wc.Rows("select k, d from " + ct)
						wc.Exec("drop table " + ct)
						c.Count("diffs_after_widening_the_declaration", 1)
						if err != nil {
							fail("query-error", "s3db_changes over an update of an added column failed: "+err.Error())
						} else {
							found := false
							for _, row := range rows {
								if row == k+"|t:added" {
									found = true
								}
							}
							if !found {
								fail("differing-row-missing:added-column", fmt.Sprintf("key %s got a value in a column that the table's earlier declaration did not have; s3db_changes between the two versions reports %v", k, rows))
							}
						}
					}
				}
			}
		}
		wc.Close()
	}
	c.Count("versions", int64(len(vs)))
	if nontrivial {
		c.NonTrivial(canon.String())
	}
	if c.Index < 4 {
		l := w.log
		if len(l) > 12 {
			l = l[:12]
		}
		c.Res.Sample = map[string]interface{}{"writers": nw, "entries_per_node": epn, "versions": len(vs), "pairs": len(pairs), "history": l}
	}
}
