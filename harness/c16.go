package main

import (
	"context"

	"fmt"
	"github.com/jrhy/s3db"
	v1proto "github.com/jrhy/s3db/proto/v1"
	"strings"

	"verifh/fs3"
	"verifh/walk"
)

func init() {
	register(&Check{
		ID:    "C16",
		Level: "exploration",
		Rule: "random write-heavy histories (1-3 writers, INSERT/UPDATE/DELETE, BEGIN/COMMIT/ROLLBACK, refresh merges, no-op commits) for entries_per_node in {2,3,4,16,4096}; " +
			"after every acknowledged commit an independent decoder walks the new version in the bucket and a cache-less read-only handle re-reads it; " +
			"epilogue on a second table: rows are inserted, deleted and vacuumed away (by the writer itself or by another connection), the writer refreshes and replays the same insert with the same write time (node cache on in half of the cases) - the bucket must again hold everything the acknowledged version refers to; " +
			"non-trivial = the case reached a tree of >=3 levels with a sparse interior node; distinct = hash of (branch factor, writers, statement list)",
		Flavours: []string{"plain"},
		Cases: func(tier string) int {
			if tier == "thorough" {
				return 3000
			}
			return 200
		},
		MinNT: func(tier string) int {
			if tier == "thorough" {
				return 500
			}
			return 40
		},
		Run: runC16,
		Assumptions: []string{
			"the in-memory object store has S3's whole-object atomicity (conformance: selftest)",
			"cache-on cases (node_cache_entries>0) run as a separate slice (case index % 5 == 4) because of known finding D19",
		},
	})
}

var epnChoices = []int{2, 3, 4, 16, 4096}

type c16w struct {
	conn   *Conn
	table  string
	client string
}

func runC16(c *Case) {
	r := c.R
	epn := epnChoices[c.Index%len(epnChoices)]
	cacheOn := (c.Index/len(epnChoices))%5 == 4
	nw := r.Range(1, 3)
	st := newStore()
	defer dropStore(st)
	prefix := "p"
	base := walk.Base(prefix)
	cols := []string{"a", "b"}
	sigp := "C16:"
	if cacheOn && epn < 4096 {
		// known finding D19: the node cache shares node objects between trees
		// and mast writes into them; only multi-level trees are affected, so
		// cache-on cases with single-node trees keep the ordinary signature
		sigp = "C16:cache-on-multilevel:"
	}
	var ws []*c16w
	defer func() {
		for _, w := range ws {
			w.conn.Close()
		}
	}()
	for i := 0; i < nw; i++ {
		w := &c16w{conn: OpenConn(fmt.Sprintf("w%d", i)), table: tname(c, "w"), client: fmt.Sprintf("w%d", i)}
		spec := TableSpec{Name: w.table, Cols: "k PRIMARY KEY, a, b", Store: st.Name, Client: w.client, Prefix: prefix, EPN: epn}
		if cacheOn {
			spec.Cache = 64
		}
		if err := w.conn.Create(spec); err != nil {
			c.Violate(sigp+"create", "create table failed: "+err.Error(), spec.SQL())
			return
		}
		ws = append(ws, w)
	}
	nkeys := 60
	switch {
	case epn <= 4:
		nkeys = r.Range(40, 140)
	case epn == 16:
		nkeys = r.Range(120, 320)
	default:
		nkeys = r.Range(20, 60)
	}
	if r.Intn(3) == 0 {
		// small tables have sparse root nodes, where shared-node defects show at once
		nkeys = r.Range(6, 30)
	}
	keyOf := func(i int) interface{} {
		if i%11 == 10 {
			return fmt.Sprintf("k%03d", i)
		}
		return i
	}
	steps := r.Range(60, 140)
	if epn == 16 {
		steps = r.Range(200, 400)
	}
	tsec := 0
	var prog []string
	assertsSeen := 0
	freshN := 0
	stmtNo := 0

	verify := func(w *c16w, why string) bool {
		c.Count("commits_verified", 1)
		vs, err := w.conn.Scalar("select s3db_version('" + w.table + "')")
		if err != nil {
			c.Violate(sigp+"version-error", "s3db_version failed after "+why+": "+err.Error(), prog)
			return false
		}
		names := parseVersionList(vs)
		own, err := w.conn.Dump(w.table)
		if err != nil {
			c.Violate(sigp+"writer-scan-error", "writer's own scan failed after "+why+": "+err.Error(), prog)
			return false
		}
		snap := st.Snapshot()
		ok := true
		for _, name := range names {
			wv := walk.Walk(snap, base, name)
			c.MaxOf("tree_levels", int64(wv.Depth))
			c.Count("nodes_decoded", int64(len(wv.Nodes)))
			c.Count("entries_decoded", int64(len(wv.Entries)))
			if wv.Depth >= 2 {
				c.Count("commits_height_ge1", 1)
			}
			if wv.Depth >= 3 {
				c.Count("commits_height_ge2", 1)
			}
			if wv.Sparse {
				c.Count("commits_with_sparse_interior", 1)
			}
			if wv.Depth >= 3 && wv.Sparse {
				c.Res.NonTrivial = true
			}
			for _, p := range wv.Problems {
				cls := p
				if i := strings.Index(p, ":"); i > 0 {
					cls = p[:i]
				}
				c.Violate(sigp+"walker:"+cls, fmt.Sprintf("after %s by %s (version %s): %s", why, w.client, name, p), prog)
				ok = false
			}
			if len(names) == 1 && len(wv.Problems) == 0 {
				// timestamps and flags too: what was decoded must be what the writer holds in memory
				if mem, err := memEntries(w.table); err == nil {
					c.Count("in_memory_trees_compared", 1)
					if d := firstDiff(mem, entryStrings(wv, cols)); d != "" {
						c.Violate(sigp+"decoded-metadata-differs-from-memory", fmt.Sprintf("after %s: entries decoded from the bucket (stamps, delete flags, column times) differ from the writer's in-memory tree (memory vs bucket): %s", why, d), prog)
						ok = false
					}
				}
				wd := wv.Dump(cols)
				if d := firstDiff(own, wd); d != "" {
					c.Violate(sigp+"decoded-differs-from-writer", fmt.Sprintf("after %s: rows decoded from the bucket differ from the writer's scan: %s", why, d), prog)
					ok = false
				}
			}
		}
		if len(names) >= 1 {
			freshN++
			fk, err := openVersions(st, fmt.Sprintf("fresh%d", freshN), prefix, names)
			if err != nil {
				c.Violate(sigp+"fresh-open-error", fmt.Sprintf("after %s: cache-less read-only open of %v failed: %v", why, names, err), prog)
				ok = false
			} else {
				fd, err := scanKV(fk, cols)
				if err != nil {
					c.Violate(sigp+"fresh-scan-error", fmt.Sprintf("after %s: scan of fresh handle failed: %v", why, err), prog)
					ok = false
				} else if d := firstDiff(own, fd); d != "" {
					c.Violate(sigp+"fresh-scan-differs", fmt.Sprintf("after %s: fresh cache-less scan differs from writer's scan: %s", why, d), prog)
					ok = false
				}
				c.Count("fresh_scans", 1)
			}
		}
		as := st.Asserts()
		for _, a := range as[assertsSeen:] {
			cls := a
			if i := strings.Index(a, ":"); i > 0 {
				cls = a[:i]
			}
			c.Violate(sigp+"store-assert:"+cls, a, prog)
			ok = false
		}
		assertsSeen = len(as)
		return ok
	}

	run := func(w *c16w, q string) error {
		prog = append(prog, w.client+": "+q)
		if len(prog) > 400 {
			prog = prog[len(prog)-400:]
		}
		return w.conn.Exec(q)
	}
	genStmt := func(w *c16w) string {
		stmtNo++
		k := keyOf(r.Intn(nkeys))
		x := r.Intn(100)
		switch {
		case x < 55:
			return fmt.Sprintf("insert into %s values (%s, %s, %s)", w.table, lit(k), lit(fmt.Sprintf("%s.%d", w.client, stmtNo)), lit(stmtNo))
		case x < 78:
			if r.Bool() {
				return fmt.Sprintf("update %s set a=%s where k=%s", w.table, lit(fmt.Sprintf("%s.%d", w.client, stmtNo)), lit(k))
			}
			return fmt.Sprintf("update %s set b=%s, a=%s where k=%s", w.table, lit(float64(stmtNo)+0.5), lit([]byte{byte(stmtNo), 1}), lit(k))
		default:
			return fmt.Sprintf("delete from %s where k=%s", w.table, lit(k))
		}
	}
	setTime := func(w *c16w) {
		tsec++
		w.conn.SetWriteTime(tsec)
	}
	for step := 0; step < steps && c.Res.Status != "violated"; step++ {
		w := ws[r.Intn(nw)]
		x := r.Intn(100)
		switch {
		case x < 70:
			setTime(w)
			q := genStmt(w)
			faulted := false
			if r.Intn(12) == 0 {
				// one PUT of this commit fails: the statement must fail, and whatever is
				// committed later must still be complete (nodes marked stored that never were)
				kc := "/node/"
				if r.Intn(3) == 0 {
					kc = "/root/current/"
				}
				st.Client(w.client).AddFault(fs3.Fault{Op: fs3.OpPut, KeyContain: kc, Action: "error"})
				faulted = true
				c.Count("commit_faults_injected", 1)
			}
			invalidKey := false
			if !faulted && r.Intn(25) == 0 {
				// a TEXT key that is not valid UTF-8: the commit is either refused (and leaves no
				// trace) or stores exactly these bytes
				q = fmt.Sprintf("insert into %s values (CAST(x'6bff%02x' AS TEXT), 'inv', %d)", w.table, r.Intn(4), stmtNo)
				invalidKey = true
				c.Count("invalid_utf8_key_statements", 1)
			}
			err := run(w, q)
			if invalidKey && err != nil && errClass(err) == "error" {
				c.Count("invalid_utf8_key_refused", 1)
				// the refused statement left no trace in the writer's own view
				if n, e := w.conn.Scalar("select count(*) from " + w.table + " where a = 'inv'"); e != nil || n != "i:0" {
					c.Violate(sigp+"refused-row-visible", fmt.Sprintf("after %q was refused (%v) the writer's own scan shows %s such rows (%v)", q, err, n, e), prog)
				}
				continue
			}
			if invalidKey {
				c.Count("invalid_utf8_key_"+errClass(err), 1)
				if err != nil {
					c.Violate(sigp+"refused-key-present", "a key whose commit was refused earlier now counts as present: "+err.Error(), prog)
				}
			}
			if faulted {
				st.Client(w.client).ClearFaults()
				prog = append(prog, "   (one PUT failed during that statement)")
				if err != nil && errClass(err) == "error" {
					c.Count("commits_failed_under_fault", 1)
					// the failed statement's effect must be gone from the writer's own view
					continue
				}
			}
			cls := errClass(err)
			if cls == "error" {
				c.Violate(sigp+"statement-error", "statement failed: "+q+": "+err.Error(), prog)
				break
			}
			if cls == "ok" {
				verify(w, "autocommit statement")
			}
		case x < 82:
			setTime(w)
			if err := run(w, "begin"); err != nil {
				c.Violate(sigp+"begin-error", err.Error(), prog)
				break
			}
			n := r.Range(1, 8)
			for i := 0; i < n; i++ {
				q := genStmt(w)
				if err := run(w, q); errClass(err) == "error" {
					c.Violate(sigp+"statement-error", "statement failed in tx: "+q+": "+err.Error(), prog)
				}
			}
			if r.Chance(0.25) {
				run(w, "rollback")
			} else {
				if err := run(w, "commit"); err != nil {
					c.Violate(sigp+"commit-error", err.Error(), prog)
					break
				}
				verify(w, "COMMIT")
			}
		case x < 92:
			if nw == 1 {
				continue
			}
			if err := run(w, "select s3db_refresh('"+w.table+"')"); err != nil {
				c.Violate(sigp+"refresh-error", err.Error(), prog)
				break
			}
			c.Count("refresh_merges", 1)
			verify(w, "refresh")
		default:
			// committing when nothing changed must write nothing
			n0 := st.LogLen()
			var q string
			switch r.Intn(4) {
			case 0:
				run(w, "begin")
				q = "commit"
			case 1:
				q = fmt.Sprintf("update %s set a='x' where k=%s", w.table, lit(fmt.Sprintf("absent%d", step)))
			case 2:
				q = fmt.Sprintf("delete from %s where k=%s", w.table, lit(-step-1000))
			default:
				run(w, "begin")
				w.conn.Rows("select count(*) from " + w.table)
				q = "commit"
			}
			setTime(w)
			if err := run(w, q); err != nil {
				c.Violate(sigp+"noop-error", "no-op statement failed: "+q+": "+err.Error(), prog)
				break
			}
			puts := 0
			for _, ev := range st.LogSince(n0) {
				if ev.Op == fs3.OpPut || ev.Op == fs3.OpDel {
					puts++
				}
			}
			c.Count("noop_commits", 1)
			if puts > 0 {
				c.Violate(sigp+"noop-commit-writes", fmt.Sprintf("a commit that changed nothing issued %d PUT/DELETE requests (%s)", puts, q), prog)
			}
		}
	}
	// another OS process, given only the bucket, reads what the last committer sees
	if c.Res.Status != "violated" && c.Index%4 == 0 {
		w := ws[0]
		if err := w.conn.Exec("select s3db_refresh('" + w.table + "')"); err == nil {
			own, err := w.conn.Dump(w.table)
			if err == nil {
				rows, cerr := runChildRead(c, st.Snapshot(), "k PRIMARY KEY, a, b", prefix)
				c.Count("other_process_reads", 1)
				if cerr != nil {
					c.Violate(sigp+"other-process-read-error", "a separate process given the bucket as a file cannot read the table: "+cerr.Error(), prog)
				} else if d := firstDiff(own, rows); d != "" {
					c.Violate(sigp+"other-process-differs", "a separate process reads different rows than the committer: "+d, prog)
				}
			}
		}
	}
	// replay epilogue: an idempotent replay (same rows, same write time) after the rows were
	// deleted and vacuumed away - by the writer itself or by another connection - builds the very
	// node that the vacuum removed from the bucket; the acknowledged commit must have stored it again.
	// One value column, so that equal rows encode to equal bytes.
	if c.Res.Status != "violated" {
		rcache := 0
		if r.Bool() {
			rcache = 16
		}
		self := r.Bool()
		rp := "rp"
		wc := OpenConn("rw")
		defer wc.Close()
		wt := tname(c, "rw")
		rspec := TableSpec{Name: wt, Cols: "k PRIMARY KEY, a", Store: st.Name, Client: "rw", Prefix: rp, EPN: epn, Cache: rcache}
		fail := func(sig, msg string) {
			c.Violate("C16:replay-after-vacuum:"+sig, msg, map[string]interface{}{"create": rspec.SQL(), "vacuum_by_writer_itself": self})
		}
		n := r.Range(1, 3)
		ins := func() error {
			wc.SetWriteTime(5000)
			if err := wc.Exec("begin"); err != nil {
				return err
			}
			for i := 0; i < n; i++ {
				if err := wc.Exec(fmt.Sprintf("insert into %s values (%d, 'r%d')", wt, i, i)); err != nil {
					wc.Exec("rollback")
					return err
				}
			}
			return wc.Exec("commit")
		}
		err := wc.Create(rspec)
		if err == nil {
			err = ins()
		}
		var first []string
		if err == nil {
			first, err = wc.Dump(wt)
		}
		if err == nil {
			jc, jt := wc, wt
			if !self {
				jc = OpenConn("rj")
				defer jc.Close()
				jt = tname(c, "rj")
				js := rspec
				js.Name, js.Client, js.Cache = jt, "rj", 0
				err = jc.Create(js)
			}
			if err == nil {
				jc.SetWriteTime(5001)
				err = jc.Exec("delete from " + jt)
			}
			if err == nil {
				var res []string
				res, err = jc.Rows("select vacuum_error from s3db_vacuum('"+jt+"', ?)", "2999-01-01 00:00:00")
				if err == nil && (len(res) != 1 || res[0] != "NULL") {
					err = fmt.Errorf("vacuum_error %v", res)
				}
			}
		}
		if err == nil && !self {
			// (the writer that vacuumed itself goes on with the handle, and the cache, it has)
			err = wc.Exec("select s3db_refresh('" + wt + "')")
		}
		if err == nil {
			err = ins()
		}
		if err != nil {
			fail("statement-error", err.Error())
		} else {
			c.Count("replays_after_vacuum", 1)
			own, err := wc.Dump(wt)
			if err != nil {
				fail("writer-scan-error", err.Error())
			} else if d := firstDiff(first, own); d != "" {
				fail("replay-not-applied", "the writer's own view after the replay differs from its view after the first insert: "+d)
			} else {
				snap := st.Snapshot()
				rbase := walk.Base(rp)
				for _, name := range walk.VersionNames(snap, rbase, "current") {
					for _, p := range walk.Walk(snap, rbase, name).Problems {
						cls := p
						if i := strings.Index(p, ":"); i > 0 {
							cls = p[:i]
						}
						fail("walker:"+cls, fmt.Sprintf("current version %s after the acknowledged replay: %s", name, p))
					}
				}
				fc := OpenConn("rf")
				ft := tname(c, "rf")
				fs := rspec
				fs.Name, fs.Client, fs.Cache, fs.ReadOnly = ft, "rf", 0, true
				if err := fc.Create(fs); err != nil {
					fail("fresh-open-error", "a fresh connection cannot open the table after the acknowledged replay: "+err.Error())
				} else if fd, err := fc.Dump(ft); err != nil {
					fail("fresh-scan-error", "a fresh connection cannot read the table after the acknowledged replay: "+err.Error())
				} else if d := firstDiff(own, fd); d != "" {
					fail("fresh-scan-differs", "a fresh connection reads other rows than the writer after the acknowledged replay (writer vs fresh): "+d)
				}
				fc.Close()
			}
		}
	}
	c.Count("statements", int64(stmtNo))
	c.Count("requests", int64(st.LogLen()))
	if c.Res.NonTrivial {
		c.Res.Key = shortHash(fmt.Sprint(epn, nw, cacheOn, prog))
	}
	if c.Index < 10 || c.Res.Status == "violated" {
		tail := prog
		if len(tail) > 12 {
			tail = tail[:12]
		}
		c.Res.Sample = map[string]interface{}{"entries_per_node": epn, "writers": nw, "cache_on": cacheOn, "steps": steps, "first_statements": tail}
	}
}

// entryStrings renders every entry of a decoded version with all its metadata.
func entryStrings(v *walk.Version, cols []string) []string {
	var out []string
	for i := range v.Entries {
		e := &v.Entries[i]
		var sb strings.Builder
		fmt.Fprintf(&sb, "%s mod=%d tomb=%d", walk.KeyString(e.Key), e.Mod, e.Tomb)
		if e.Row != nil {
			fmt.Fprintf(&sb, " deleted=%v status@%d", e.Row.Deleted, e.DeleteTime())
			for _, col := range cols {
				if t, ok := e.ColTime(col); ok {
					fmt.Fprintf(&sb, " %s=%s@%d", col, walk.KeyString(e.Row.ColumnValues[col].Value), t)
				}
			}
		}
		out = append(out, sb.String())
	}
	return out
}

// memEntries renders the writer's in-memory tree the same way, through the exported Go API.
func memEntries(table string) ([]string, error) {
	vt := s3db.GetTable(table)
	if vt == nil || vt.Tree == nil {
		return nil, fmt.Errorf("table %s not registered", table)
	}
	ctx := context.Background()
	cur, err := vt.Tree.Root.Cursor(ctx)
	if err != nil {
		return nil, err
	}
	if err := cur.Min(ctx); err != nil {
		return nil, err
	}
	var out []string
	for {
		k, v, ok := cur.Get()
		if !ok {
			break
		}
		var sb strings.Builder
		fmt.Fprintf(&sb, "%s mod=%d tomb=%d", walk.KeyString(k.(*s3db.Key).SQLiteValue), v.ModEpochNanos, v.TombstoneSinceEpochNanos)
		if row, _ := v.Value.(*v1proto.Row); row != nil {
			fmt.Fprintf(&sb, " deleted=%v status@%d", row.Deleted, v.ModEpochNanos+int64(row.DeleteUpdateOffset.AsDuration()))
			for _, col := range []string{"a", "b"} {
				if cv, ok := row.ColumnValues[col]; ok {
					fmt.Fprintf(&sb, " %s=%s@%d", col, walk.KeyString(cv.Value), v.ModEpochNanos+int64(cv.UpdateOffset.AsDuration()))
				}
			}
		}
		out = append(out, sb.String())
		if err := cur.Forward(ctx); err != nil {
			return out, err
		}
	}
	return out, nil
}
