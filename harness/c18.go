package main

import (
	"bytes"
	"context"
	"fmt"
	"sort"
	"strings"
	"time"

	"github.com/jrhy/s3db/kv"

	"verifh/fs3"
)

func init() {
	register(&Check{
		ID:    "C18",
		Level: "exploration",
		Rule: "kind A (primitives through hook H4, one message length per step): for every length 0..130 (quick) / 0..1100 (thorough) and 2-8 passphrases a seeded message is encrypted twice (must be equal), decrypted (must round-trip), decrypted under another passphrase (must fail), truncated at every length and extended (must fail), and for ciphertexts <= 96 bytes EVERY single bit is flipped (2000 random flips above; each must fail, never return data); a legacy-format box (nonce || hand-rolled secretbox) of the same message must open to the plaintext. " +
			"kind B (end to end): kv.Open with V1NodeEncryptor on the instrumented store; keys and values carry 16-byte high-entropy markers; after commit no node/ object may contain a marker; a reader with the right passphrase gets the values back, one with a wrong passphrase (an unrelated one and a dozen near misses: trailing line ending, blank, NUL, dropped or added character, letter case) or reading a bucket with one flipped bit in a node object, or with a node object replaced by its own plaintext, gets an error; committing unchanged data again adds no object and never rewrites a name with different bytes (store assertion). " +
			"non-trivial = every case (each covers a distinct length range / marker set); distinct = hash of (kind, lengths, passphrase)",
		Flavours: []string{"plain", "race"},
		FlavourOf: func(tier string, idx int) string {
			if c18IsE2E(tier, idx) && idx%2 == 0 {
				return "race" // node encryption runs on up to 40 goroutines during a flush
			}
			return "plain"
		},
		Cases: func(tier string) int {
			if tier == "thorough" {
				return 300
			}
			return 36
		},
		MinNT: func(tier string) int {
			if tier == "thorough" {
				return 200
			}
			return 20
		},
		Run: runC18,
		Assumptions: []string{
			"behavioural clauses only: nothing is claimed about the strength of XSalsa20-Poly1305 or Argon2",
			"exhaustive only over single-bit flips of the listed ciphertexts (<= 96 bytes)",
		},
		Finish: func(agg *Agg, cov map[string]interface{}) {
			cov["exhaustive"] = false
			cov["note_exhaustive"] = "all single-bit flips of every ciphertext <= 96 bytes were tried (counter bit_flips_exhaustive); longer ones are sampled"
		},
	})
}

func c18Key(pass string) *[32]byte {
	var k [32]byte
	copy(k[:], kv.VerifDeriveKey([]byte(pass), nil))
	return &k
}

func c18IsE2E(tier string, idx int) bool {
	return idx%9 == 8 || (tier == "thorough" && idx%10 == 9)
}

func runC18(c *Case) {
	if c18IsE2E(c.Tier, c.Index) {
		c18EndToEnd(c)
		return
	}
	r := c.R
	// this case covers a contiguous block of lengths
	maxLen := 130
	ncases := 32
	if c.Tier == "thorough" {
		maxLen = 1100
		ncases = 270
	}
	slot := c.Index % ncases
	per := (maxLen + ncases) / ncases
	from, to := slot*per, slot*per+per-1
	if to > maxLen {
		to = maxLen
	}
	npass := 2
	if c.Tier == "thorough" {
		npass = 8
	}
	var canon strings.Builder
	for pi := 0; pi < npass; pi++ {
		pass := fmt.Sprintf("pass-%d-%d", c.Index, pi)
		if pi == 1 {
			pass = ""
		}
		key := c18Key(pass)
		other := c18Key(pass + "x")
		for n := from; n <= to; n++ {
			m := r.Bytes(n)
			if n > 0 && r.Intn(4) == 0 {
				m = bytes.Repeat([]byte{0}, n)
			}
			fmt.Fprintf(&canon, "%d:%s;", n, shortHash(string(m)))
			ct, err := kv.VerifEncrypt(key, m)
			if err != nil {
				c.Violate("C18:encrypt-error", fmt.Sprintf("encrypt of %d bytes failed: %v", n, err), nil)
				return
			}
			ct2, _ := kv.VerifEncrypt(key, m)
			c.Count("messages", 1)
			if !bytes.Equal(ct, ct2) {
				c.Violate("C18:not-deterministic", fmt.Sprintf("two encryptions of the same %d-byte message under the same key differ", n), nil)
				return
			}
			if n >= 8 && bytes.Contains(ct, m) {
				c.Violate("C18:plaintext-in-ciphertext", fmt.Sprintf("the ciphertext of a %d-byte message contains the message", n), nil)
				return
			}
			pt, err := kv.VerifDecrypt(key, ct)
			if err != nil || !bytes.Equal(pt, m) {
				c.Violate("C18:round-trip", fmt.Sprintf("decrypt(encrypt(m)) != m for length %d (err %v)", n, err), nil)
				return
			}
			if pt, err := kv.VerifDecrypt(other, ct); err == nil {
				c.Violate("C18:wrong-passphrase-accepted", fmt.Sprintf("a %d-byte message decrypts under another passphrase without error (%d bytes returned)", n, len(pt)), nil)
				return
			}
			// same message, other key -> other ciphertext (nonce depends on the key too)
			if cto, _ := kv.VerifEncrypt(other, m); n > 0 && bytes.Equal(cto[:24], ct[:24]) {
				c.Violate("C18:nonce-independent-of-key", fmt.Sprintf("the nonce for a %d-byte message is the same under two keys", n), nil)
				return
			}
			// truncation at every length, and extension
			for l := 0; l < len(ct); l++ {
				if pt, err := kv.VerifDecrypt(key, ct[:l]); err == nil {
					c.Violate("C18:truncation-accepted", fmt.Sprintf("ciphertext of a %d-byte message truncated to %d of %d bytes decrypts without error (%d bytes)", n, l, len(ct), len(pt)), nil)
					return
				}
				c.Count("truncations", 1)
			}
			for _, ext := range [][]byte{{0}, {0xff, 1}, ct[:1]} {
				if _, err := kv.VerifDecrypt(key, append(append([]byte{}, ct...), ext...)); err == nil {
					c.Violate("C18:extension-accepted", fmt.Sprintf("ciphertext of a %d-byte message extended by %d bytes decrypts without error", n, len(ext)), nil)
					return
				}
				c.Count("extensions", 1)
			}
			// bit flips
			flip := func(bit int) bool {
				mod := append([]byte{}, ct...)
				mod[bit/8] ^= 1 << uint(bit%8)
				if pt, err := kv.VerifDecrypt(key, mod); err == nil {
					where := "body"
					if bit/8 < 24 {
						where = "nonce"
					} else if bit/8 < 40 {
						where = "mac"
					}
					c.Violate("C18:bit-flip-accepted:"+where, fmt.Sprintf("ciphertext of a %d-byte message with bit %d (%s) flipped decrypts without error (%d bytes)", n, bit, where, len(pt)), nil)
					return false
				}
				return true
			}
			if len(ct) <= 96 {
				for bit := 0; bit < len(ct)*8; bit++ {
					if !flip(bit) {
						return
					}
				}
				c.Count("bit_flips_exhaustive", int64(len(ct)*8))
				c.Count("ciphertexts_fully_flipped", 1)
			} else if pi == 0 {
				for i := 0; i < 200; i++ {
					if !flip(r.Intn(len(ct) * 8)) {
						return
					}
				}
				c.Count("bit_flips_sampled", 200)
			}
			// legacy box: nonce || crypto_secretbox_easy
			nonce := r.Bytes(24)
			box, err := kv.VerifLegacySeal(m, nonce, key)
			if err != nil {
				c.Violate("C18:legacy-seal-error", err.Error(), nil)
				return
			}
			legacy := append(append([]byte{}, nonce...), box...)
			pt, err = kv.VerifDecrypt(key, legacy)
			c.Count("legacy_boxes", 1)
			if err != nil || !bytes.Equal(pt, m) {
				c.Violate("C18:legacy-unreadable", fmt.Sprintf("a legacy-format box of a %d-byte message does not open to its plaintext (err %v)", n, err), nil)
				return
			}
			if len(legacy) > 24 {
				mod := append([]byte{}, legacy...)
				mod[24+r.Intn(len(mod)-24)] ^= 0x10
				if _, err := kv.VerifDecrypt(key, mod); err == nil {
					c.Violate("C18:legacy-tamper-accepted", fmt.Sprintf("a modified legacy-format box of a %d-byte message opens without error", n), nil)
					return
				}
			}
		}
	}
	// the Encryptor object as kv uses it
	{
		pass := []byte(fmt.Sprintf("buffer-pass-%d", c.Index))
		buf := append([]byte{}, pass...)
		enc := kv.V1NodeEncryptor(buf)
		// the caller wipes / reuses its buffer after construction
		for i := range buf {
			buf[i] = 'x'
		}
		ref := kv.V1NodeEncryptor(append([]byte{}, pass...))
		m := r.Bytes(r.Range(40, 200))
		c1, e1 := enc.Encrypt("p", m)
		c2, e2 := ref.Encrypt("p", m)
		c.Count("encryptor_objects_checked", 1)
		if e1 != nil || e2 != nil || !bytes.Equal(c1, c2) {
			c.Violate("C18:encryptor:key-follows-caller-buffer", "an encryptor built from a passphrase buffer that the caller changed afterwards encrypts differently from one built from the same passphrase", nil)
			return
		}
		if pt, err := ref.Decrypt("p", c1); err != nil || !bytes.Equal(pt, m) {
			c.Violate("C18:encryptor:round-trip", fmt.Sprintf("cross decrypt failed: %v", err), nil)
			return
		}
		// an empty passphrase is a passphrase: what it writes is encrypted and authenticated as well
		for _, ep := range [][]byte{nil, {}} {
			ee := kv.V1NodeEncryptor(ep)
			em := append([]byte("plaintext-marker-"), r.Bytes(40)...)
			ec, err := ee.Encrypt("p", em)
			c.Count("empty_passphrase_encryptors", 1)
			if err != nil {
				c.Violate("C18:encryptor:empty-passphrase:encrypt-error", err.Error(), nil)
				return
			}
			if bytes.Contains(ec, em[:17]) || bytes.Equal(ec, em) {
				c.Violate("C18:encryptor:empty-passphrase:plaintext", "an encryptor built from an empty passphrase stores the plaintext", nil)
				return
			}
			if pt, err := ee.Decrypt("p", ec); err != nil || !bytes.Equal(pt, em) {
				c.Violate("C18:encryptor:empty-passphrase:round-trip", fmt.Sprintf("round trip under the empty passphrase failed: %v", err), nil)
				return
			}
			bad := append([]byte{}, ec...)
			bad[len(bad)-1] ^= 1
			if _, err := ee.Decrypt("p", bad); err == nil {
				c.Violate("C18:encryptor:empty-passphrase:tamper-accepted", "under the empty passphrase a modified box opens without error", nil)
				return
			}
			if _, err := ref.Decrypt("p", ec); err == nil {
				c.Violate("C18:encryptor:empty-passphrase:opens-under-another", "a box written under the empty passphrase opens under another passphrase", nil)
				return
			}
		}
		// passphrases that differ from the right one only slightly are different passphrases
		for _, np := range c18NearMisses(pass) {
			other := kv.V1NodeEncryptor(append([]byte{}, np...))
			c.Count("near_miss_passphrases", 1)
			if pt, err := other.Decrypt("p", c1); err == nil {
				c.Violate("C18:encryptor:near-miss-passphrase-accepted", fmt.Sprintf("a box written under %q opens under %q without error (%d bytes)", pass, np, len(pt)), nil)
				return
			}
		}
		// one instance reading a store that holds both formats, in both orders
		key := c18Key(string(pass))
		for _, legacyFirst := range []bool{false, true} {
			one := kv.V1NodeEncryptor(append([]byte{}, pass...))
			cur := r.Bytes(r.Range(33, 120))
			old := r.Bytes(r.Range(33, 120))
			cbox, _ := one.Encrypt("p", cur)
			nonce := r.Bytes(24)
			sealed, _ := kv.VerifLegacySeal(old, nonce, key)
			lbox := append(append([]byte{}, nonce...), sealed...)
			check := func(box, want []byte, what string) bool {
				pt, err := one.Decrypt("p", box)
				if err != nil || !bytes.Equal(pt, want) {
					c.Violate("C18:encryptor:mixed-formats:"+what, fmt.Sprintf("one encryptor instance, legacy box first=%v: the %s box does not open to its plaintext (err %v)", legacyFirst, what, err), nil)
					return false
				}
				return true
			}
			if legacyFirst {
				if !check(lbox, old, "legacy") || !check(cbox, cur, "current") || !check(lbox, old, "legacy") {
					return
				}
			} else if !check(cbox, cur, "current") || !check(lbox, old, "legacy") || !check(cbox, cur, "current") {
				return
			}
		}
	}
	c.NonTrivial(fmt.Sprint("A", from, to, canon.String()))
	if c.Index < 3 {
		c.Res.Sample = map[string]interface{}{"kind": "primitives", "lengths": fmt.Sprintf("%d..%d", from, to), "passphrases": npass}
	}
}

// c18NearMisses returns passphrases that differ from p by a trailing line
// ending, blank, NUL, a dropped or added character, or letter case.
func c18NearMisses(p []byte) [][]byte {
	s := string(p)
	out := []string{s + "\n", s + "\r\n", s + "\r", s + " ", " " + s, s + "\x00", s + "\t", "\n" + s, strings.ToUpper(s), s + s}
	if len(s) > 0 {
		out = append(out, s[:len(s)-1], s[1:])
	}
	var res [][]byte
	for _, o := range out {
		if o != s {
			res = append(res, []byte(o))
		}
	}
	return res
}

func c18EndToEnd(c *Case) {
	r := c.R
	ctx := context.Background()
	st := newStore()
	defer dropStore(st)
	pass := []byte(fmt.Sprintf("secret-%d", c.Index))
	bf := uint([]int{2, 4, 4096}[r.Intn(3)])
	bulk := c.Index%2 == 0
	if bulk && bf == 4096 {
		bf = 4 // a flush of many nodes encrypts them concurrently
	}
	cfgFor := func(p []byte) kv.Config {
		cfg := kv.Config{
			Storage:      &kv.S3BucketInfo{EndpointURL: fs3.Endpoint(st.Name, "e2e"), BucketName: "b", Prefix: "enc"},
			KeysLike:     "key",
			ValuesLike:   "value",
			BranchFactor: bf,
		}
		if p != nil {
			cfg.NodeEncryptor = kv.V1NodeEncryptor(p)
		}
		return cfg
	}
	view := st.Client("e2e").View(false)
	db, err := kv.Open(ctx, view, cfgFor(pass), kv.OpenOptions{}, time.Unix(1000, 0))
	if err != nil {
		c.Violate("C18:e2e:open", err.Error(), nil)
		return
	}
	var markers [][]byte
	want := map[string]string{}
	idxOf := map[string]int{}
	n := r.Range(5, 60)
	if bulk {
		n = r.Range(600, 1500)
	}
	for i := 0; i < n; i++ {
		mk, mv := r.Bytes(16), r.Bytes(16)
		k := fmt.Sprintf("k%03d-%x", i, mk)
		v := fmt.Sprintf("v-%x", mv)
		markers = append(markers, []byte(fmt.Sprintf("%x", mk)), []byte(fmt.Sprintf("%x", mv)))
		want[k] = v
		idxOf[k] = i
		if err := db.Set(ctx, time.Unix(2000+int64(i), 0), k, v); err != nil {
			c.Violate("C18:e2e:set", err.Error(), nil)
			return
		}
	}
	// now and then one node PUT of the commit fails once: the commit may fail and is then repeated;
	// whatever the retry logic does, what ends up in the bucket is encrypted
	putFault := !bulk && r.Intn(3) != 0
	if putFault {
		st.Client("e2e").AddFault(fs3.Fault{Op: fs3.OpPut, KeyContain: "/node/", Action: "error"})
		c.Count("commits_with_a_failing_node_put", 1)
	}
	if _, err := db.Commit(ctx); err != nil {
		st.Client("e2e").ClearFaults()
		if !putFault || !fs3.IsInjected(err) {
			c.Violate("C18:e2e:commit", err.Error(), nil)
			return
		}
		// the same entries on a fresh handle
		db.Cancel()
		db, err = kv.Open(ctx, view, cfgFor(pass), kv.OpenOptions{}, time.Unix(1000, 0))
		if err != nil {
			c.Violate("C18:e2e:open", err.Error(), nil)
			return
		}
		for k, v := range want {
			if err := db.Set(ctx, time.Unix(2000+int64(idxOf[k]), 0), k, v); err != nil {
				c.Violate("C18:e2e:set", err.Error(), nil)
				return
			}
		}
		if _, err := db.Commit(ctx); err != nil {
			c.Violate("C18:e2e:commit", "after a failed node PUT the repeated commit failed: "+err.Error(), nil)
			return
		}
	}
	st.Client("e2e").ClearFaults()
	snap := st.Snapshot()
	nodes := 0
	for k, b := range snap {
		if !strings.Contains(k, "/node/") {
			continue
		}
		nodes++
		for _, m := range markers {
			if bytes.Contains(b, m) {
				c.Violate("C18:e2e:plaintext-in-node", fmt.Sprintf("node object %s contains the plaintext marker %s", k, m), nil)
				return
			}
		}
	}
	c.Count("encrypted_nodes_scanned", int64(nodes))
	c.Count("markers", int64(len(markers)))
	if nodes == 0 {
		c.Violate("C18:e2e:no-nodes", "no node object was written", nil)
		return
	}
	// without an encryptor the same data does contain the markers (the scan is meaningful)
	{
		st2 := newStore()
		cfg := cfgFor(nil)
		cfg.Storage = &kv.S3BucketInfo{EndpointURL: fs3.Endpoint(st2.Name, "plain"), BucketName: "b", Prefix: "enc"}
		d2, err := kv.Open(ctx, st2.Client("plain").View(false), cfg, kv.OpenOptions{}, time.Unix(1000, 0))
		if err == nil {
			for k, v := range want {
				d2.Set(ctx, time.Unix(2000, 0), k, v)
			}
			d2.Commit(ctx)
			found := false
			for k, b := range st2.Snapshot() {
				if strings.Contains(k, "/node/") && bytes.Contains(b, markers[0]) {
					found = true
				}
			}
			if found {
				c.Count("marker_scan_validated_on_plain_bucket", 1)
			}
		}
		dropStore(st2)
	}
	// equal plaintext gives equal ciphertext also when nodes are encrypted concurrently:
	// the same data committed into a second bucket must produce the same node objects
	{
		st4 := newStore()
		cfg := cfgFor(pass)
		cfg.Storage = &kv.S3BucketInfo{EndpointURL: fs3.Endpoint(st4.Name, "again"), BucketName: "b", Prefix: "enc"}
		d4, err := kv.Open(ctx, st4.Client("again").View(false), cfg, kv.OpenOptions{}, time.Unix(1000, 0))
		if err == nil {
			i := 0
			keys := make([]string, 0, len(want))
			for k := range want {
				keys = append(keys, k)
			}
			sort.Strings(keys)
			for _, k := range keys {
				d4.Set(ctx, time.Unix(2000+int64(idxOf[k]), 0), k, want[k])
				i++
			}
			if _, err := d4.Commit(ctx); err == nil {
				a, b := map[string]string{}, map[string]string{}
				for k, v := range snap {
					if strings.Contains(k, "/node/") {
						a[k] = fs3.ShaHex(v)
					}
				}
				for k, v := range st4.Snapshot() {
					if strings.Contains(k, "/node/") {
						b[k] = fs3.ShaHex(v)
					}
				}
				c.Count("independent_recommits_compared", 1)
				if len(a) != len(b) {
					c.Violate("C18:e2e:not-deterministic", fmt.Sprintf("the same entries committed into two buckets give %d and %d node objects", len(a), len(b)), nil)
					dropStore(st4)
					return
				}
				for k, h := range a {
					if b[k] != h {
						pa, ea := kv.VerifDecrypt(c18Key(string(pass)), snap[k])
						pb, eb := kv.VerifDecrypt(c18Key(string(pass)), st4.Snapshot()[k])
						c.Violate("C18:e2e:not-deterministic", fmt.Sprintf("node %s has different ciphertext in two buckets holding the same entries (plaintexts equal: %v, %v %v, lens %d %d)", k, bytes.Equal(pa, pb), ea, eb, len(pa), len(pb)), nil)
						dropStore(st4)
						return
					}
				}
			}
		}
		dropStore(st4)
	}
	// reader with the right passphrase
	rd, err := kv.Open(ctx, st.Client("reader").View(true), cfgFor(pass), kv.OpenOptions{ReadOnly: true}, time.Unix(3000, 0))
	if err != nil {
		c.Violate("C18:e2e:reader-open", err.Error(), nil)
		return
	}
	for k, v := range want {
		var got string
		ok, err := rd.Get(ctx, k, &got)
		if err != nil || !ok || got != v {
			c.Violate("C18:e2e:reader-get", fmt.Sprintf("Get(%s) = %q, %v, %v; want %q", k, got, ok, err, v), nil)
			return
		}
	}
	// wrong passphrase
	for _, wrong := range append([][]byte{[]byte("wrong")}, c18NearMisses(pass)...) {
		bad, err := kv.Open(ctx, st.Client("bad").View(true), cfgFor(wrong), kv.OpenOptions{ReadOnly: true}, time.Unix(3000, 0))
		if err == nil {
			var got string
			anyKey := ""
			for k := range want {
				anyKey = k
				break
			}
			ok, err := bad.Get(ctx, anyKey, &got)
			if err == nil {
				c.Violate("C18:e2e:wrong-passphrase-reads", fmt.Sprintf("a reader with the passphrase %q (written under %q) read %q (found=%v) without error", wrong, pass, got, ok), nil)
				return
			}
		}
		c.Count("wrong_passphrase_rejected", 1)
	}
	// a node object replaced by its own plaintext (which hashes to the node's name): a modification
	// of a stored object like any other
	{
		key := c18Key(string(pass))
		n := 0
		for k, b := range snap {
			if !strings.Contains(k, "/node/") || n >= 4 {
				continue
			}
			pt, err := kv.VerifDecrypt(key, b)
			if err != nil {
				continue
			}
			n++
			st3 := newStore()
			st3.Restore(snap)
			st3.PutRaw(k, pt)
			cfg := cfgFor(pass)
			cfg.Storage = &kv.S3BucketInfo{EndpointURL: fs3.Endpoint(st3.Name, "t"), BucketName: "b", Prefix: "enc"}
			t, err := kv.Open(ctx, st3.Client("t").View(true), cfg, kv.OpenOptions{ReadOnly: true}, time.Unix(3000, 0))
			sawErr := err != nil
			if err == nil {
				for kk := range want {
					var got string
					if _, err := t.Get(ctx, kk, &got); err != nil {
						sawErr = true
						break
					}
				}
			}
			dropStore(st3)
			c.Count("plaintext_substitutions", 1)
			if !sawErr {
				c.Violate("C18:e2e:unencrypted-node-accepted", fmt.Sprintf("with node %s replaced by its plaintext every read succeeded: an object that was not written under the passphrase is accepted", k), nil)
				return
			}
		}
	}
	// one flipped bit in one node object
	{
		var nodeKeys []string
		for k := range snap {
			if strings.Contains(k, "/node/") {
				nodeKeys = append(nodeKeys, k)
			}
		}
		for trial := 0; trial < 6; trial++ {
			st3 := newStore()
			st3.Restore(snap)
			k := nodeKeys[r.Intn(len(nodeKeys))]
			b := append([]byte{}, snap[k]...)
			bit := r.Intn(len(b) * 8)
			b[bit/8] ^= 1 << uint(bit%8)
			st3.PutRaw(k, b)
			cfg := cfgFor(pass)
			cfg.Storage = &kv.S3BucketInfo{EndpointURL: fs3.Endpoint(st3.Name, "t"), BucketName: "b", Prefix: "enc"}
			t, err := kv.Open(ctx, st3.Client("t").View(true), cfg, kv.OpenOptions{ReadOnly: true}, time.Unix(3000, 0))
			sawErr := err != nil
			if err == nil {
				for kk, v := range want {
					var got string
					ok, err := t.Get(ctx, kk, &got)
					if err != nil {
						sawErr = true
						continue
					}
					if !ok || got != v {
						c.Violate("C18:e2e:tampered-node-yields-data", fmt.Sprintf("with bit %d of node %s flipped, Get(%s) returned %q (found=%v) without error", bit, k, kk, got, ok), nil)
						dropStore(st3)
						return
					}
				}
			}
			dropStore(st3)
			if !sawErr {
				c.Violate("C18:e2e:tampered-node-unnoticed", fmt.Sprintf("with bit %d of node %s flipped every read succeeded", bit, k), nil)
				return
			}
			c.Count("tampered_buckets_rejected", 1)
		}
	}
	// unchanged data committed again: no new objects, no rewritten names
	before := len(st.Keys(""))
	db2, err := kv.Open(ctx, st.Client("again").View(false), cfgFor(pass), kv.OpenOptions{}, time.Unix(4000, 0))
	if err != nil {
		c.Violate("C18:e2e:reopen", err.Error(), nil)
		return
	}
	for k, v := range want {
		db2.Set(ctx, time.Unix(1500, 0), k, v) // older than stored: no change
	}
	if _, err := db2.Commit(ctx); err != nil {
		c.Violate("C18:e2e:recommit", err.Error(), nil)
		return
	}
	// and a real change that re-stores most nodes unchanged
	db2.Set(ctx, time.Unix(5000, 0), "k000-new", "x")
	db2.Commit(ctx)
	nodesAfter := 0
	for _, k := range st.Keys("") {
		if strings.Contains(k, "/node/") {
			nodesAfter++
		}
	}
	for _, a := range st.Asserts() {
		if strings.HasPrefix(a, "immutability") {
			c.Violate("C18:e2e:name-rewritten", a, nil)
			return
		}
	}
	if bf == 4096 && n < 100 && nodesAfter > nodes+1 {
		c.Violate("C18:e2e:nodes-stored-twice", fmt.Sprintf("%d node objects before, %d after committing one change", nodes, nodesAfter), nil)
		return
	}
	_ = before
	c.Count("recommits", 1)
	c.NonTrivial(fmt.Sprint("B", c.Index, n, bf))
	c.Res.Sample = map[string]interface{}{"kind": "end-to-end", "entries": n, "branch_factor": bf, "encrypted_nodes": nodes}
}
