package main

import (
	"fmt"
)

func init() {
	register(&Check{
		ID:    "C02",
		Level: "exploration",
		Rule: "random multi-writer histories (1-4 writers on one prefix, 3-8 keys, 3 non-key columns, 8-30 INSERT/UPDATE/DELETE statements with globally distinct write times handed out by a seeded permutation, so one writer's clock runs backwards; refresh points and transactions at random positions); " +
			"after every accepted statement the writer's local dump is compared with the executable model of the README's Multiple-Writers rules applied to its causal past, and at the end read-only and read-write fresh opens are compared with the model over all committed statements; one third of the cases re-run the same statements on a single writer and compare. " +
			"non-trivial = a key with >=2 accepted statements from >=2 writers or with non-monotone write times on one writer; distinct = per-key pattern of (kind, writer, time)",
		Flavours: []string{"plain"},
		Cases: func(tier string) int {
			if tier == "thorough" {
				return 5000
			}
			return 600
		},
		MinNT: func(tier string) int {
			if tier == "thorough" {
				return 2500
			}
			return 300
		},
		Run: runC02,
		Assumptions: []string{
			"a statement counts as accepted when it reported success and changed >=1 row on the writer that ran it",
			"write times are distinct per key (ties are outside the property) and explicit (s3db_conn.write_time)",
		},
	})
}

// runHistory executes a plan in a world, checking local dumps; returns false on violation.
func runHistory(c *Case, w *hworld, p hplan, sigp string, localCheck bool) bool {
	detail := func() interface{} {
		l := w.log
		if len(l) > 80 {
			l = l[len(l)-80:]
		}
		return l
	}
	for _, st := range p.Steps {
		switch st.Op {
		case "refresh":
			if err := w.refresh(st.W); err != nil {
				c.Violate(sigp+"refresh-error", "s3db_refresh failed: "+err.Error(), detail())
				return false
			}
			c.Count("refreshes", 1)
		case "begin":
			if err := w.begin(st.W); err != nil {
				c.Violate(sigp+"begin-error", err.Error(), detail())
				return false
			}
		case "commit":
			if err := w.commitTx(st.W); err != nil {
				c.Violate(sigp+"commit-error", err.Error(), detail())
				return false
			}
		case "stmt":
			s, err := w.exec(st.Stmt)
			if err != nil {
				c.Violate(sigp+"statement-error", fmt.Sprintf("statement failed: %s: %v", s, err), detail())
				return false
			}
			c.Count("statements", 1)
			if s.Accepted {
				c.Count("statements_accepted", 1)
			}
		}
		if localCheck && (st.Op == "stmt" || st.Op == "refresh") {
			hw := w.ws[st.W]
			got, err := hw.conn.Dump(hw.table)
			if err != nil {
				c.Violate(sigp+"local-dump-error", err.Error(), detail())
				return false
			}
			want := mrow(w.pastStmts(hw))
			c.Count("local_dumps_compared", 1)
			if d := firstDiff(want, got); d != "" {
				kind := st.Op
				if st.Op == "stmt" {
					kind = st.Stmt.Kind
				}
				c.Violate(sigp+"local-differs-after-"+kind, fmt.Sprintf("writer w%d's own view after %s differs from the model of its causal past (model vs table): %s", st.W, w.log[len(w.log)-1], d), detail())
				return false
			}
		}
	}
	return true
}

func runC02(c *Case) {
	if c.Index%40 == 39 {
		c02KeyOnly(c)
		return
	}
	r := c.R
	nw := []int{1, 2, 2, 3, 3, 4}[r.Intn(6)]
	nkeys := r.Range(2, 6)
	nst := r.Range(8, 30)
	epn := []int{4096, 4096, 2, 3}[r.Intn(4)]
	plan := genPlan(r, nw, nkeys, nst, 0.15, 0.1)
	if c.Index%8 == 7 {
		// the whole history carries write times of the year 1960 (before the epoch: negative
		// nanosecond counts in the stored times)
		for i := range plan.Steps {
			if plan.Steps[i].Op == "stmt" {
				plan.Steps[i].Stmt.T -= 1893456000
			}
		}
		c.Count("histories_before_1970", 1)
	}
	w, err := newWorld(c, nw, epn)
	defer w.close()
	if err != nil {
		c.Violate("C02:create", err.Error(), nil)
		return
	}
	if !runHistory(c, w, plan, "C02:", true) {
		return
	}
	want := mrow(w.committed())
	shape, conflicts := conflictShape(w.stmts)
	final := func(tag string, ro bool) bool {
		got, err := w.freshDump(ro, tag)
		if err != nil {
			c.Violate("C02:final-open-error", tag+": "+err.Error(), w.log)
			return false
		}
		c.Count("merged_dumps_compared", 1)
		if d := firstDiff(want, got); d != "" {
			c.Violate("C02:merged-differs", fmt.Sprintf("%s open after the history: merged rows differ from the model (model vs table): %s", tag, d), w.log)
			return false
		}
		return true
	}
	if !final("ro", true) || !final("rw", false) || !final("ro2", true) {
		return
	}
	// the same statements on one writer
	if c.Index%3 == 0 && nw > 1 {
		p1 := plan
		p1.NW = 1
		p1.Steps = nil
		for _, st := range plan.Steps {
			if st.Op == "stmt" {
				st.W = 0
				st.Stmt.W = 0
				p1.Steps = append(p1.Steps, st)
			}
		}
		w1, err := newWorld(c, 1, epn)
		defer w1.close()
		if err == nil && runHistory(c, w1, p1, "C02:single-writer:", true) {
			sameAccepted := len(w1.stmts) == len(w.stmts)
			if sameAccepted {
				acc := map[string]bool{}
				for _, s := range w.stmts {
					if s.Accepted {
						acc[fmt.Sprint(s.Kind, s.Key, s.T)] = true
					}
				}
				n := 0
				for _, s := range w1.stmts {
					if s.Accepted {
						n++
						if !acc[fmt.Sprint(s.Kind, s.Key, s.T)] {
							sameAccepted = false
						}
					}
				}
				if n != len(acc) {
					sameAccepted = false
				}
			}
			got1, err := w1.freshDump(true, "ro")
			if err != nil {
				c.Violate("C02:single-writer:final-open-error", err.Error(), w1.log)
				return
			}
			if d := firstDiff(mrow(w1.committed()), got1); d != "" {
				c.Violate("C02:single-writer:merged-differs", "single-writer re-run differs from the model: "+d, w1.log)
				return
			}
			if sameAccepted {
				c.Count("repartitions_compared", 1)
				if d := firstDiff(want, got1); d != "" {
					c.Violate("C02:repartition-differs", "the same accepted statements on one writer and on several give different rows: "+d, append(append([]string{}, w.log...), w1.log...))
				}
			}
		}
	}
	if conflicts > 0 {
		c.NonTrivial(shape)
		c.Count("conflicting_keys", int64(conflicts))
	}
	if c.Index < 5 {
		l := w.log
		if len(l) > 14 {
			l = l[:14]
		}
		c.Res.Sample = map[string]interface{}{"writers": nw, "keys": nkeys, "entries_per_node": epn, "history": l, "model_rows": want}
	}
}

// c02KeyOnly: a table that has only its key column. INSERT @1, DELETE @2,
// INSERT @5, then a DELETE stamped @3 (older than the last INSERT): the row
// stays - on the writer itself and after another writer's copy is merged.
func c02KeyOnly(c *Case) {
	r := c.R
	st := newStore()
	defer dropStore(st)
	a, b := OpenConn("ka"), OpenConn("kb")
	defer a.Close()
	defer b.Close()
	ta, tb := tname(c, "ka"), tname(c, "kb")
	epn := []int{4096, 2}[r.Intn(2)]
	for _, x := range []struct {
		cn *Conn
		t  string
		cl string
	}{{a, ta, "ka"}, {b, tb, "kb"}} {
		if err := x.cn.Create(TableSpec{Name: x.t, Cols: "k PRIMARY KEY", Store: st.Name, Client: x.cl, Prefix: "ko", EPN: epn}); err != nil {
			c.Violate("C02:key-only:create", err.Error(), nil)
			return
		}
	}
	nk := r.Range(1, 6)
	var trace []string
	do := func(cn *Conn, ts int, q string) {
		cn.SetWriteTime(ts)
		err := cn.Exec(q)
		trace = append(trace, fmt.Sprintf("@%d %s -> %v", ts, q, err))
	}
	for k := 1; k <= nk; k++ {
		do(a, 1, fmt.Sprintf("insert into %s values (%d)", ta, k))
		do(a, 2, fmt.Sprintf("delete from %s where k=%d", ta, k))
		do(a, 5, fmt.Sprintf("insert into %s values (%d)", ta, k))
	}
	victim := 1 + r.Intn(nk)
	if r.Bool() {
		do(a, 3, fmt.Sprintf("delete from %s where k=%d", ta, victim))
	} else {
		// the stale delete comes from the other writer, which has seen the rows
		b.Exec("select s3db_refresh('" + tb + "')")
		do(b, 3, fmt.Sprintf("delete from %s where k=%d", tb, victim))
		a.Exec("select s3db_refresh('" + ta + "')")
		trace = append(trace, "refresh")
	}
	c.Count("key_only_tables", 1)
	rows, err := a.Rows("select k from " + ta + " order by k")
	if err != nil || len(rows) != nk {
		c.Violate("C02:key-only:older-delete-wins", fmt.Sprintf("a DELETE stamped older than the row's last INSERT removed the row from a table with only a key column: %d rows inserted, read %v (%v)", nk, rows, err), trace)
		return
	}
	c.NonTrivial(fmt.Sprint("keyonly", nk, victim, epn))
}
