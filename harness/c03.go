package main

import (
	"fmt"
	"sort"
	"strings"
	"time"

	"github.com/anishathalye/porcupine"

	"verifh/fs3"
	"verifh/walk"
)

func init() {
	register(&Check{
		ID:    "C03",
		Level: "exploration",
		Rule: "clients on one bucket prefix run under a deterministic scheduler that gates their object-store requests (one client runs at a time; logical time advances on every grant, call and return). Roles: committer (already open, one autocommit INSERT of a unique marker row = PUT node, PUT version, retire parent), merger / read-write opener (CREATE VIRTUAL TABLE, commits the merge of 2 unmerged versions), read-only opener, refresher (s3db_refresh on an open table); every open/refresh is followed by SELECT and recorded as read -> marker set. " +
			"Exhaustive cases: for a two-client configuration ALL interleavings of the version-namespace requests (LIST, and GET/PUT/DELETE under root/; node objects are content-addressed and immutable, so they commute) are enumerated by depth-first replay of grant prefixes. Random cases: 3-4 clients, every request gated, 20 seeded random-priority schedules per case. In some configurations the first GET of a retired version (root/merged/) by the later openers fails with an injected storage error: that open or refresh may fail (it then observed nothing) but may not succeed without the version; in others the committer's PUT of its version object fails (the commit then added nothing, and the opener must still see the initial rows). " +
			"Each history (call/return at logical time) is checked with porcupine against a grow-only set (add(i); read returns exactly the current set, which always contains the initial rows), then with scheduling off a read-only open (LIST answered one key per page), a read-write and another read-only open must each contain every acknowledged marker. " +
			"non-trivial = a history with >=1 add concurrent with >=1 read; distinct = hash of the executed grant sequence (counted under 'distinct')",
		Flavours: []string{"race"},
		Cases: func(tier string) int {
			if tier == "thorough" {
				return len(c03Exhaustive) + 1000
			}
			return 5 + 20
		},
		MinNT: func(tier string) int {
			if tier == "thorough" {
				return 500
			}
			return 10
		},
		Run:         runC03,
		CaseTimeout: 600 * time.Second,
		Assumptions: []string{
			"LIST is atomic (single page), as a real single-page LIST is; commits take effect at the PUT of their version object, opens at their LIST",
			"the reduction to version-namespace requests in exhaustive cases assumes node objects are immutable and content-addressed (asserted online by the store; the random cases gate every request)",
			"'eventually contained' is decided in the bounded form: after all clients stopped, the next opens contain every acknowledged marker",
		},
		Finish: func(agg *Agg, cov map[string]interface{}) {
			cov["exhaustive"] = false
			cov["note_exhaustive"] = "exhaustive per listed two-client configuration (see counters exhaustive_configs_completed), not over configurations"
		},
	})
}

type c03role struct {
	Kind   string // committer | open-ro | open-rw | refresher
	Marker int
}

type c03config struct {
	Name    string
	Roles   []c03role
	Full    bool // start from the bucket with two unmerged versions
	GateAll bool
	// FaultRetired: the first GET of a retired version (root/merged/) by each
	// opener or refresher after client 0 fails; such an operation may fail (it is then not
	// part of the history) but must not succeed without that version's rows
	FaultRetired bool
	// FaultPublish: the committer's PUT of its new version object fails; the
	// commit may fail (it is then not part of the history), and whatever the
	// opener sees must still contain the initial rows
	FaultPublish bool
}

var c03Exhaustive = []c03config{
	{Name: "committer x ro-opener", Roles: []c03role{{"committer", 10}, {"open-ro", 0}}},
	{Name: "committer x rw-opener", Roles: []c03role{{"committer", 10}, {"open-rw", 0}}},
	{Name: "merger x ro-opener", Roles: []c03role{{"open-rw", 0}, {"open-ro", 0}}, Full: true},
	{Name: "committer x ro-opener whose first read of a retired version fails", Roles: []c03role{{"committer", 10}, {"open-ro", 0}}, FaultRetired: true},
	{Name: "committer whose version PUT fails x ro-opener", Roles: []c03role{{"committer", 10}, {"open-ro", 0}}, FaultPublish: true},
	{Name: "committer x refresher", Roles: []c03role{{"committer", 10}, {"refresher", 0}}},
	{Name: "merger x rw-opener", Roles: []c03role{{"open-rw", 0}, {"open-rw", 0}}, Full: true},
	{Name: "merger x refresher", Roles: []c03role{{"open-rw", 0}, {"refresher", 0}}, Full: true},
	{Name: "refresher x ro-opener", Roles: []c03role{{"refresher", 0}, {"open-ro", 0}}, Full: true},
	{Name: "refresher x rw-opener", Roles: []c03role{{"refresher", 0}, {"open-rw", 0}}, Full: true},
	{Name: "refresher x refresher", Roles: []c03role{{"refresher", 0}, {"refresher", 0}}, Full: true},
	{Name: "committer x committer x ro-opener", Roles: []c03role{{"committer", 10}, {"committer", 11}, {"open-ro", 0}}},
	{Name: "committer (two commits) x rw-opener", Roles: []c03role{{"committer2", 10}, {"open-rw", 0}}},
	{Name: "committer x merger (2 unmerged versions)", Roles: []c03role{{"committer", 10}, {"open-rw", 0}}, Full: true},
	{Name: "committer x ro-opener, every request gated (node objects too)", Roles: []c03role{{"committer", 10}, {"open-ro", 0}}, GateAll: true},
	{Name: "committer x rw-opener, every request gated (node objects too)", Roles: []c03role{{"committer", 10}, {"open-rw", 0}}, GateAll: true},
	{Name: "merger x rw-opener whose first read of a retired version fails", Roles: []c03role{{"open-rw", 0}, {"open-rw", 0}}, Full: true, FaultRetired: true},
	{Name: "merger x refresher whose first read of a retired version fails", Roles: []c03role{{"open-rw", 0}, {"refresher", 0}}, Full: true, FaultRetired: true},
}

type c03in struct {
	Add    bool
	Marker int
}

func c03Model(init uint64) porcupine.Model {
	return porcupine.Model{
		Init: func() interface{} { return init },
		Step: func(state, input, output interface{}) (bool, interface{}) {
			st := state.(uint64)
			in := input.(c03in)
			if in.Add {
				return true, st | 1<<uint(in.Marker)
			}
			return output.(uint64) == st, st
		},
		Equal: func(a, b interface{}) bool { return a.(uint64) == b.(uint64) },
		DescribeOperation: func(input, output interface{}) string {
			in := input.(c03in)
			if in.Add {
				return fmt.Sprintf("commit(marker %d)", in.Marker)
			}
			return fmt.Sprintf("open -> %s", setStr(output.(uint64)))
		},
	}
}

func setStr(s uint64) string {
	var ms []string
	for i := 0; i < 64; i++ {
		if s&(1<<uint(i)) != 0 {
			ms = append(ms, fmt.Sprint(i))
		}
	}
	return "{" + strings.Join(ms, ",") + "}"
}

type c03world struct {
	base, full fs3.Snapshot
	initBase   uint64
	initFull   uint64
}

const c03Cols = "k PRIMARY KEY, a"

// c03Build prepares the two start states.
func c03Build(c *Case) (*c03world, error) {
	vclockInstall()
	st := newStore()
	defer dropStore(st)
	vclockSet(st.Name, 100)
	defer vclockDrop(st.Name)
	mk := func(client string) (*Conn, string, error) {
		cn := OpenConn(client)
		t := tname(c, client)
		return cn, t, cn.Create(TableSpec{Name: t, Cols: c03Cols, Store: st.Name, Client: client, Prefix: "p"})
	}
	w := &c03world{}
	cn, t, err := mk("w0")
	if err != nil {
		return nil, err
	}
	cn.SetWriteTime(1)
	cn.Exec("insert into " + t + " values (0,'base')")
	cn.SetWriteTime(2)
	cn.Exec("insert into " + t + " values (1,'base')")
	cn.Close()
	w.base = st.Snapshot()
	w.initBase = 0b11
	c1, t1, err := mk("x1")
	if err != nil {
		return nil, err
	}
	c2, t2, err := mk("x2")
	if err != nil {
		return nil, err
	}
	c1.SetWriteTime(3)
	c1.Exec("insert into " + t1 + " values (2,'x1')")
	c2.SetWriteTime(4)
	c2.Exec("insert into " + t2 + " values (3,'x2')")
	c1.Close()
	c2.Close()
	w.full = st.Snapshot()
	w.initFull = 0b1111
	if n := len(walk.VersionNames(w.full, walk.Base("p"), "current")); n != 2 {
		return nil, fmt.Errorf("setup: expected 2 unmerged versions, have %d", n)
	}
	return w, nil
}

type c03result struct {
	ops      []porcupine.Operation
	grants   []int
	trace    []string
	acked    uint64
	failed   []string
	timeout  bool
	final    []uint64
	finalErr string
	faulted  int
}

func readSet(cn *Conn, t string) (uint64, error) {
	rows, err := cn.Rows("select k from " + t)
	if err != nil {
		return 0, err
	}
	var s uint64
	for _, r := range rows {
		var k int
		fmt.Sscanf(r, "i:%d", &k)
		s |= 1 << uint(k)
	}
	return s, nil
}

// c03Run executes one schedule of a configuration.
func c03Run(c *Case, w *c03world, cfg c03config, choose func(step int, enabled []int) int) *c03result {
	res := &c03result{}
	st := newStore()
	defer dropStore(st)
	vclockSet(st.Name, 200)
	defer vclockDrop(st.Name)
	st.Restore(w.base)
	names := make([]string, len(cfg.Roles))
	conns := make([]*Conn, len(cfg.Roles))
	tabs := make([]string, len(cfg.Roles))
	for i, role := range cfg.Roles {
		names[i] = fmt.Sprintf("c%d", i)
		conns[i] = OpenConn(names[i])
		tabs[i] = tname(c, names[i])
		ep := fs3.Endpoint(st.Name, names[i])
		setPerm(ep, func(roots []string) []string { o := append([]string(nil), roots...); sort.Strings(o); return o })
		defer setPerm(ep, nil)
		if role.Kind == "committer" || role.Kind == "committer2" || role.Kind == "refresher" {
			// already open before the schedule starts (from the base state)
			if err := conns[i].Create(TableSpec{Name: tabs[i], Cols: c03Cols, Store: st.Name, Client: names[i], Prefix: "p"}); err != nil {
				res.failed = append(res.failed, "pre-open: "+err.Error())
			}
			conns[i].SetWriteTime(100 + i)
		}
	}
	defer func() {
		for _, cn := range conns {
			cn.Close()
		}
	}()
	if cfg.Full {
		st.Restore(w.full)
	}
	sc := newSched(names, cfg.GateAll)
	for i, n := range names {
		st.Client(n).SetGate(sc)
		if k := cfg.Roles[i].Kind; cfg.FaultPublish && (k == "committer" || k == "committer2") {
			st.Client(n).AddFault(fs3.Fault{Op: fs3.OpPut, KeyContain: "root/current/", Action: "error"})
		}
		if k := cfg.Roles[i].Kind; cfg.FaultRetired && i >= 1 && k != "committer" && k != "committer2" {
			st.Client(n).AddFault(fs3.Fault{Op: fs3.OpGet, KeyContain: "root/merged/", Action: "error"})
		}
	}
	var opsMu = make(chan struct{}, 1)
	opsMu <- struct{}{}
	record := func(op porcupine.Operation) {
		<-opsMu
		res.ops = append(res.ops, op)
		opsMu <- struct{}{}
	}
	bodies := make([]func(), len(cfg.Roles))
	for i, role := range cfg.Roles {
		i, role := i, role
		cn, t := conns[i], tabs[i]
		bodies[i] = func() {
			switch role.Kind {
			case "committer2":
				for n := 0; n < 2; n++ {
					marker := role.Marker + n
					call := sc.Tick()
					cn.SetWriteTime(100 + 10*i + n)
					err := cn.Exec(fmt.Sprintf("insert into %s values (%d,'m')", t, marker))
					ret := sc.Tick()
					if err != nil {
						<-opsMu
						res.failed = append(res.failed, fmt.Sprintf("commit of marker %d failed: %v", marker, err))
						opsMu <- struct{}{}
						return
					}
					<-opsMu
					res.acked |= 1 << uint(marker)
					opsMu <- struct{}{}
					record(porcupine.Operation{ClientId: i, Input: c03in{Add: true, Marker: marker}, Call: call, Output: uint64(0), Return: ret})
				}
			case "committer":
				call := sc.Tick()
				err := cn.Exec(fmt.Sprintf("insert into %s values (%d,'m')", t, role.Marker))
				ret := sc.Tick()
				if err != nil && cfg.FaultPublish && fs3.IsInjected(err) {
					// a commit that failed added nothing
					<-opsMu
					res.faulted++
					opsMu <- struct{}{}
					return
				}
				if err != nil {
					<-opsMu
					res.failed = append(res.failed, fmt.Sprintf("commit of marker %d failed: %v", role.Marker, err))
					opsMu <- struct{}{}
					return
				}
				<-opsMu
				res.acked |= 1 << uint(role.Marker)
				opsMu <- struct{}{}
				record(porcupine.Operation{ClientId: i, Input: c03in{Add: true, Marker: role.Marker}, Call: call, Output: uint64(0), Return: ret})
			default:
				call := sc.Tick()
				var err error
				switch role.Kind {
				case "open-ro":
					err = cn.Create(TableSpec{Name: t, Cols: c03Cols, Store: st.Name, Client: names[i], Prefix: "p", ReadOnly: true})
				case "open-rw":
					err = cn.Create(TableSpec{Name: t, Cols: c03Cols, Store: st.Name, Client: names[i], Prefix: "p"})
				case "refresher":
					err = cn.Exec("select s3db_refresh('" + t + "')")
				}
				var set uint64
				if err == nil {
					set, err = readSet(cn, t)
				}
				ret := sc.Tick()
				if err != nil && cfg.FaultRetired && fs3.IsInjected(err) {
					// a failed open or refresh observed nothing
					<-opsMu
					res.faulted++
					opsMu <- struct{}{}
					return
				}
				if err != nil {
					<-opsMu
					res.failed = append(res.failed, fmt.Sprintf("%s failed: %v", role.Kind, err))
					opsMu <- struct{}{}
					return
				}
				record(porcupine.Operation{ClientId: i, Input: c03in{}, Call: call, Output: set, Return: ret})
			}
		}
	}
	grants, ok := sc.run(bodies, choose)
	res.grants = grants
	res.trace = sc.trace
	res.timeout = !ok
	for _, n := range names {
		st.Client(n).SetGate(nil)
	}
	if !ok {
		return res
	}
	// quiescent containment
	for i, ro := range []bool{true, false, true} {
		// the read-only ones - the first still sees every unmerged version - get their LIST
		// answered one key per page (scheduling is off here)
		st.PageSize = 0
		if ro {
			st.PageSize = 1
		}
		cn := OpenConn("final")
		t := tname(c, "final")
		err := cn.Create(TableSpec{Name: t, Cols: c03Cols, Store: st.Name, Client: fmt.Sprintf("final%d", i), Prefix: "p", ReadOnly: ro})
		var set uint64
		if err == nil {
			set, err = readSet(cn, t)
		}
		cn.Close()
		if err != nil {
			res.finalErr = err.Error()
			break
		}
		res.final = append(res.final, set)
	}
	return res
}

func c03Judge(c *Case, cfg c03config, w *c03world, res *c03result, sigp string) bool {
	init := w.initBase
	if cfg.Full {
		init = w.initFull
	}
	detail := func() interface{} {
		var ops []string
		m := c03Model(init)
		for _, o := range res.ops {
			ops = append(ops, fmt.Sprintf("client %d [%d,%d] %s", o.ClientId, o.Call, o.Return, m.DescribeOperation(o.Input, o.Output)))
		}
		return map[string]interface{}{"configuration": cfg.Name, "initial": setStr(init), "grants": res.grants, "requests": res.trace, "operations": ops}
	}
	if res.timeout {
		c.Count("schedules_watchdog", 1)
		return true // inconclusive, counted
	}
	if len(res.failed) > 0 {
		c.Violate(sigp+"operation-failed", fmt.Sprintf("%s: %s", cfg.Name, res.failed[0]), detail())
		return false
	}
	c.Count("histories_checked", 1)
	c.Count("operations", int64(len(res.ops)))
	c.Count("operations_failed_on_injected_fault", int64(res.faulted))
	r, _ := porcupine.CheckOperationsVerbose(c03Model(init), res.ops, 60*time.Second)
	switch r {
	case porcupine.Unknown:
		c.Count("porcupine_timeouts", 1)
	case porcupine.Illegal:
		// classify: which read is the odd one
		kind := "not-linearizable"
		for _, o := range res.ops {
			in := o.Input.(c03in)
			if !in.Add {
				out := o.Output.(uint64)
				if out&init != init {
					kind = "not-linearizable:open-lost-initial-rows"
					if out == 0 {
						kind = "not-linearizable:open-saw-empty-table"
					}
				}
			}
		}
		c.Violate(sigp+kind, fmt.Sprintf("%s: the history of commits and opens is not linearizable as a grow-only set", cfg.Name), detail())
		return false
	}
	if res.finalErr != "" {
		c.Violate(sigp+"final-open-failed", cfg.Name+": "+res.finalErr, detail())
		return false
	}
	want := init | res.acked
	for i, f := range res.final {
		if f&want != want {
			c.Violate(sigp+"acknowledged-commit-missing", fmt.Sprintf("%s: quiescent open %d shows %s, acknowledged %s", cfg.Name, i, setStr(f), setStr(want)), detail())
			return false
		}
	}
	// non-trivial: an add concurrent with a read
	for _, a := range res.ops {
		if !a.Input.(c03in).Add {
			continue
		}
		for _, b := range res.ops {
			if b.Input.(c03in).Add {
				continue
			}
			if a.Call < b.Return && b.Call < a.Return {
				c.Res.NonTrivial = true
			}
		}
	}
	if cfg.Full {
		c.Res.NonTrivial = c.Res.NonTrivial || len(res.ops) >= 2
	}
	c.Distinct("grant_sequences", cfg.Name+fmt.Sprint(res.grants))
	for _, o := range res.ops {
		if !o.Input.(c03in).Add {
			c.Distinct("marker_sets_observed", setStr(o.Output.(uint64)))
		}
	}
	return true
}

func runC03(c *Case) {
	w, err := c03Build(c)
	if err != nil {
		c.Violate("C03:setup", err.Error(), nil)
		return
	}
	nex := 5
	if c.Tier == "thorough" {
		nex = len(c03Exhaustive)
	}
	if c.Index < nex {
		cfg := c03Exhaustive[c.Index]
		// depth-first enumeration of all grant sequences
		var prefix []int
		schedules := 0
		const cap = 60000
		for {
			var enabledAt [][]int
			choose := func(step int, enabled []int) int {
				enabledAt = append(enabledAt, append([]int(nil), enabled...))
				if step < len(prefix) {
					for _, e := range enabled {
						if e == prefix[step] {
							return e
						}
					}
				}
				return enabled[0]
			}
			res := c03Run(c, w, cfg, choose)
			schedules++
			if schedules%50 == 0 {
				c.Heartbeat()
			}
			if !c03Judge(c, cfg, w, res, "C03:exhaustive:") {
				break
			}
			// next prefix: deepest decision with an untried alternative
			next := -1
			var alt int
			for d := len(res.grants) - 1; d >= 0 && next < 0; d-- {
				en := enabledAt[d]
				for j, e := range en {
					if e == res.grants[d] && j+1 < len(en) {
						next, alt = d, en[j+1]
					}
				}
			}
			if next < 0 {
				c.Count("exhaustive_configs_completed", 1)
				break
			}
			prefix = append(append([]int(nil), res.grants[:next]...), alt)
			if schedules >= cap {
				c.Count("exhaustive_configs_capped", 1)
				break
			}
		}
		c.Count("schedules_exhaustive", int64(schedules))
		c.Count("schedules", int64(schedules))
		if c.Res.NonTrivial {
			c.Res.Key = shortHash(cfg.Name)
		}
		mode := "exhaustive over version-namespace requests"
		if cfg.GateAll {
			mode = "exhaustive over all requests"
		}
		c.Res.Sample = map[string]interface{}{"configuration": cfg.Name, "mode": mode, "schedules": schedules}
		return
	}
	// random: 3-4 clients, every request gated
	r := c.R
	k := r.Range(3, 4)
	cfg := c03config{GateAll: true, Full: r.Bool(), FaultRetired: r.Intn(3) == 0, FaultPublish: r.Intn(5) == 0}
	kinds := []string{"committer", "committer", "open-ro", "open-rw", "refresher"}
	hasReader, hasWriter := false, false
	for i := 0; i < k; i++ {
		kd := kinds[r.Intn(len(kinds))]
		if i == k-1 && !hasReader {
			kd = "open-ro"
		}
		if i == k-2 && !hasWriter && !cfg.Full {
			kd = "committer"
		}
		if kd == "committer" {
			hasWriter = true
		} else {
			hasReader = true
		}
		cfg.Roles = append(cfg.Roles, c03role{kd, 10 + i})
	}
	var nm []string
	for _, ro := range cfg.Roles {
		nm = append(nm, ro.Kind)
	}
	cfg.Name = "random " + strings.Join(nm, " x ")
	if cfg.Full {
		cfg.Name += " (2 unmerged versions)"
	}
	if cfg.FaultRetired {
		cfg.Name += " (later openers' first read of a retired version fails)"
	}
	if cfg.FaultPublish {
		cfg.Name += " (the committers' first PUT of a version object fails)"
	}
	for s := 0; s < 20 && c.Res.Status != "violated"; s++ {
		// random priorities with a few change points (PCT style)
		prio := r.Perm(k)
		changes := map[int]bool{}
		for i := 0; i < r.Range(1, 3); i++ {
			changes[r.Intn(40)] = true
		}
		choose := func(step int, enabled []int) int {
			if changes[step] {
				prio = r.Perm(k)
			}
			best := enabled[0]
			for _, e := range enabled {
				if prio[e] > prio[best] {
					best = e
				}
			}
			if r.Intn(8) == 0 {
				best = enabled[r.Intn(len(enabled))]
			}
			return best
		}
		res := c03Run(c, w, cfg, choose)
		c.Count("schedules_random", 1)
		c.Count("schedules", 1)
		c03Judge(c, cfg, w, res, "C03:random:")
	}
	if c.Res.NonTrivial {
		c.Res.Key = shortHash(fmt.Sprint(cfg.Name, c.Index))
	}
	if c.Index < nex+3 {
		c.Res.Sample = map[string]interface{}{"configuration": cfg.Name, "mode": "random priorities over all requests", "schedules": 20}
	}
}
