package main

import (
	"fmt"
	"strings"

	"verifh/walk"
)

func init() {
	register(&Check{
		ID:    "C13",
		Level: "exploration",
		Rule: "a bucket is prepared with 0-4 unmerged versions (writers that never refresh, with deletes so that vacuum would have work, trees of 1-4 levels; in a quarter of the multi-version cases the writers run identical statements, so that the merge of their versions changes nothing); a table created with the readonly option then runs a random program of 15-40 steps: SELECTs, s3db_refresh, s3db_version, s3db_changes between recorded versions, s3db_vacuum with cutoffs before/between/after all stamps, INSERT/UPDATE/DELETE inside and outside transactions, while a writer keeps committing in between. " +
			"Monitor: the store's online assertion fires on any PUT or DELETE issued through a handle opened read-only (the flag is taken from the table's own options by hook H1); write statements must fail; the dump must not change across a refused write or maintenance attempt. " +
			"non-trivial = the read-only open had >=2 unmerged versions to merge and at least one write, vacuum and refresh attempt ran; distinct = hash of the program",
		Flavours: []string{"plain"},
		Cases: func(tier string) int {
			if tier == "thorough" {
				return 3000
			}
			return 300
		},
		MinNT: func(tier string) int {
			if tier == "thorough" {
				return 1000
			}
			return 80
		},
		Run: runC13,
		Assumptions: []string{
			"every storage request of a read-only table goes through the client that hook H1 hands out, which carries the table's readonly flag; requests of s3db_changes' temporary handles are read-only by construction and are asserted the same way",
		},
	})
}

func runC13(c *Case) {
	r := c.R
	nver := c.Index % 5 // unmerged versions
	epn := []int{4096, 2, 3, 4}[r.Intn(4)]
	nw := nver
	if nw == 0 {
		nw = 1
	}
	w, err := newWorld(c, nw, epn)
	defer w.close()
	if err != nil {
		c.Violate("C13:create", err.Error(), nil)
		return
	}
	// twins: every writer runs the same statements with the same write times, so the unmerged
	// versions hold identical rows and merging them changes nothing (a merged tree that is clean)
	twins := nver >= 2 && (c.Index/5)%4 == 3
	if twins {
		c.Count("cases_with_identical_unmerged_versions", 1)
	}
	if nver > 0 {
		nst := r.Range(6, 40)
		times := r.Perm(nst + 2)
		for i := 0; i < nst; i++ {
			wi := r.Intn(nw)
			if twins {
				wi = 0
			}
			s := HStmt{W: wi, Key: 1 + r.Intn(12), T: 10 + times[i]}
			switch x := r.Intn(10); {
			case x < 5:
				s.Kind = "ins"
				s.Cols = map[string]string{"a": fmt.Sprintf("t:w%ds%d", wi, i)}
			case x < 7:
				s.Kind = "upd"
				s.Cols = map[string]string{"b": fmt.Sprintf("t:w%du%d", wi, i)}
			default:
				s.Kind = "del"
			}
			if _, err := w.exec(s); err != nil {
				c.Violate("C13:setup-error", err.Error(), w.log)
				return
			}
			for wj := 1; twins && wj < nw; wj++ {
				s2 := s
				s2.W = wj
				if _, err := w.exec(s2); err != nil {
					c.Violate("C13:setup-error", err.Error(), w.log)
					return
				}
			}
		}
	}
	// emptied: the only writer deletes every row and vacuums with a cutoff between the deletes and its own
	// open, so that the current version is a committed empty tree
	if nver == 1 && (c.Index/5)%6 == 5 {
		cn, t := w.ws[0].conn, w.ws[0].table
		cn.SetWriteTime(200)
		e1 := cn.Exec("delete from " + t)
		res, e2 := cn.Rows("select vacuum_error from s3db_vacuum('"+t+"', ?)", tstr(300))
		w.logf("w0 delete everything @200; vacuum cutoff @300 -> %v %v %v", e1, res, e2)
		c.Count("cases_on_a_committed_empty_version", 1)
	}
	base := walk.Base(w.prefix)
	w.st.PageSize = []int{0, 1, 2}[c.Index%3]
	unmerged := len(walk.VersionNames(w.st.Snapshot(), base, "current"))
	c.Distinct("unmerged_versions_at_open", fmt.Sprint(unmerged))
	ro := OpenConn("ro")
	defer ro.Close()
	rt := tname(c, "ro")
	spec := TableSpec{Name: rt, Cols: "k PRIMARY KEY, a, b, c", Store: w.st.Name, Client: "ro", Prefix: w.prefix, EPN: epn, ReadOnly: true}
	var prog []string
	fail := func(sig, msg string) {
		c.Violate("C13:"+sig, msg, map[string]interface{}{"setup": w.log, "program": prog})
	}
	assertsSeen := 0
	checkAsserts := func(after string) bool {
		as := w.st.Asserts()
		bad := false
		for _, a := range as[assertsSeen:] {
			if strings.HasPrefix(a, "readonly-mutation") {
				op := "PUT"
				if strings.Contains(a, "DELETE") {
					op = "DELETE"
				}
				where := "node"
				if strings.Contains(a, "/root/") {
					where = "root"
				}
				fail("mutation:"+op+":"+where+":"+strings.Fields(after)[0], fmt.Sprintf("after %q: %s", after, a))
				bad = true
			}
		}
		assertsSeen = len(as)
		return !bad
	}
	prog = append(prog, spec.SQL())
	if err := ro.Create(spec); err != nil {
		fail("open-error", "read-only open failed: "+err.Error())
		return
	}
	if !checkAsserts("open") {
		return
	}
	dump := func() ([]string, bool) {
		d, err := ro.Dump(rt)
		if err != nil {
			fail("dump-error", err.Error())
			return nil, false
		}
		return d, true
	}
	var versions []string
	recordVersion := func() {
		if v, err := ro.Scalar("select s3db_version('" + rt + "')"); err == nil {
			versions = append(versions, strings.TrimPrefix(v, "t:"))
		}
	}
	recordVersion()
	steps := r.Range(15, 40)
	sawWrite, sawVacuum, sawRefresh := false, false, false
	for i := 0; i < steps && c.Res.Status != "violated"; i++ {
		d0, ok := dump()
		if !ok {
			return
		}
		unchanged := func(after string) {
			d1, ok := dump()
			if ok {
				if d := firstDiff(d0, d1); d != "" {
					fail("rows-changed:"+strings.Fields(after)[0], fmt.Sprintf("rows visible through the read-only table changed across %q: %s", after, d))
				}
			}
		}
		switch x := r.Intn(100); {
		case x < 30: // write attempt
			k := int64(r.Intn(14))
			var q string
			switch r.Intn(4) {
			case 0:
				q = fmt.Sprintf("insert into %s values (%d, 'x', 'y', 'z')", rt, 100+i)
			case 1:
				q = fmt.Sprintf("update %s set a='ro' where k=%d", rt, k)
			case 2:
				q = fmt.Sprintf("delete from %s where k=%d", rt, k)
			default:
				q = fmt.Sprintf("insert into %s(k) values (%d)", rt, k)
			}
			inTx := r.Intn(3) == 0
			if inTx {
				ro.Exec("begin")
			}
			n, err := ro.ExecN(q)
			var cerr error
			if inTx {
				if r.Bool() {
					cerr = ro.Exec("commit")
				} else {
					ro.Exec("rollback")
				}
			}
			prog = append(prog, fmt.Sprintf("write: %s (tx=%v) -> %d rows, %v / %v", q, inTx, n, err, cerr))
			sawWrite = true
			c.Count("write_attempts", 1)
			if err == nil && n > 0 {
				fail("write-succeeded", fmt.Sprintf("a write statement on a read-only table reported success: %s", q))
			}
			checkAsserts("write " + q)
			unchanged("write")
		case x < 45:
			cut := []string{"2001-01-01 00:00:00", tstr(r.Intn(60)), "2999-01-01 00:00:00"}[r.Intn(3)]
			res, err := ro.Rows("select * from s3db_vacuum('"+rt+"', ?)", cut)
			prog = append(prog, fmt.Sprintf("vacuum %s -> %v %v", cut, res, err))
			sawVacuum = true
			c.Count("vacuum_attempts", 1)
			checkAsserts("vacuum " + cut)
			unchanged("vacuum")
		case x < 60:
			// a writer commits something new, then the read-only table refreshes
			if nver > 0 && r.Bool() {
				wi := r.Intn(nw)
				w.exec(HStmt{W: wi, Kind: "ins", Key: 20 + i, T: 2000 + i, Cols: map[string]string{"a": fmt.Sprintf("t:late%d", i)}})
				prog = append(prog, fmt.Sprintf("(writer w%d commits key %d)", wi, 20+i))
			}
			err := ro.Exec("select s3db_refresh('" + rt + "')")
			prog = append(prog, fmt.Sprintf("refresh -> %v", err))
			sawRefresh = true
			c.Count("refreshes", 1)
			if err != nil {
				fail("refresh-error", "s3db_refresh on the read-only table failed: "+err.Error())
			}
			checkAsserts("refresh")
			recordVersion()
		case x < 70:
			recordVersion()
			prog = append(prog, "version")
			checkAsserts("version")
		case x < 85:
			if len(versions) == 0 {
				continue
			}
			from := versions[r.Intn(len(versions))]
			to := versions[r.Intn(len(versions))]
			if r.Intn(3) == 0 {
				from = "[]"
			}
			ct := tname(c, "chg")
			q := fmt.Sprintf("create virtual table %s using s3db_changes (table='%s', from='%s', to='%s')", ct, rt, from, to)
			if r.Intn(4) == 0 {
				q = fmt.Sprintf("create virtual table %s using s3db_changes (table='%s', from='%s')", ct, rt, from)
			}
			err := ro.Exec(q)
			var rows []string
			if err == nil {
				rows, err = ro.Rows("select * from " + ct)
				ro.Exec("drop table " + ct)
			}
			prog = append(prog, fmt.Sprintf("changes %s..%s -> %d rows, %v", from, to, len(rows), err))
			c.Count("changes_queries", 1)
			checkAsserts("changes")
			unchanged("changes")
		default:
			q := []string{"select count(*), min(k), max(k) from %s", "select * from %s where k > 3 order by k desc", "select * from %s where k = 5"}[r.Intn(3)]
			_, err := ro.Rows(fmt.Sprintf(q, rt))
			prog = append(prog, fmt.Sprintf("%s -> %v", q, err))
			if err != nil {
				fail("query-error", err.Error())
			}
			checkAsserts("select")
		}
	}
	// closing the connection must not write either
	ro.Close()
	checkAsserts("close")
	ro = nil
	for _, ev := range w.st.Log() {
		if ev.RO {
			c.Count("readonly_handle_requests_"+ev.Op, 1)
		}
	}
	if unmerged >= 2 && sawWrite && sawVacuum && sawRefresh {
		c.NonTrivial(fmt.Sprint(nver, epn, prog))
	}
	if c.Index < 5 {
		p := prog
		if len(p) > 12 {
			p = p[:12]
		}
		c.Res.Sample = map[string]interface{}{"unmerged_versions": unmerged, "entries_per_node": epn, "program": p}
	}
}
