package main

import (
	"fmt"
	"sort"
	"strings"

	"verifh/fs3"
	"verifh/walk"
)

// vsnap is a recorded (version name list, rows) pair.
type vsnap struct {
	Step    int
	W       int
	Names   []string
	Raw     string // the s3db_version() text
	Dump    []string
	ByKey   map[string]string // key cell -> row
	Bucket1 bool              // the bucket's root/current held exactly these names when it was taken
}

func dumpByKey(d []string) map[string]string {
	m := map[string]string{}
	for _, row := range d {
		k := row
		if i := strings.Index(row, "|"); i >= 0 {
			k = row[:i]
		}
		m[k] = row
	}
	return m
}

// vhistory runs a random multi-writer history and records a snapshot after
// every step on the writer that took it.
type vhistory struct {
	w     *hworld
	snaps []vsnap
}

func (h *vhistory) record(c *Case, step, wi int) (*vsnap, error) {
	hw := h.w.ws[wi]
	if hw.inTx {
		return nil, nil
	}
	raw, err := hw.conn.Scalar("select s3db_version('" + hw.table + "')")
	if err != nil {
		return nil, fmt.Errorf("s3db_version: %w", err)
	}
	d, err := hw.conn.Dump(hw.table)
	if err != nil {
		return nil, fmt.Errorf("dump: %w", err)
	}
	s := vsnap{Step: step, W: wi, Raw: strings.TrimPrefix(raw, "t:"), Names: parseVersionList(raw), Dump: d, ByKey: dumpByKey(d)}
	cur := walk.VersionNames(h.w.st.Snapshot(), walk.Base(h.w.prefix), "current")
	s.Bucket1 = eqStrings(cur, s.Names)
	h.snaps = append(h.snaps, s)
	return &h.snaps[len(h.snaps)-1], nil
}

func genVStmt(r *Rng, wi, i, nkeys int, t int) HStmt {
	s := HStmt{W: wi, Key: 1 + r.Intn(nkeys), T: t}
	tag := fmt.Sprintf("t:w%ds%d", wi, i)
	switch x := r.Intn(100); {
	case x < 45:
		s.Kind = "ins"
		s.Cols = map[string]string{"a": tag + "a"}
		if r.Bool() {
			s.Cols["b"] = tag + "b"
		}
	case x < 75:
		s.Kind = "upd"
		s.Cols = map[string]string{hcols[r.Intn(3)]: tag}
	default:
		s.Kind = "del"
	}
	return s
}

func init() {
	register(&Check{
		ID:    "C11",
		Level: "exploration",
		Rule: "random histories of 2-4 writers (10-40 steps: statements, transactions, refreshes, no-op steps) record (s3db_version(), rows) after every step; at every later step a sample of earlier versions - and at the end all of them - is re-read three ways: SQL s3db_changes(from='[]',to=V), the Go API restricted to V (OnlyVersions) with a cache-less handle, and the independent bucket decoder; each must return exactly the recorded rows. " +
			"s3db_version() must stay the same across steps that change nothing (SELECT, refresh with nothing new, UPDATE/DELETE matching no row, refused INSERT, empty BEGIN;COMMIT), must change across a commit that changes the rows, and a read-only table over n unmerged versions must list exactly those n names. " +
			"non-trivial = >=6 distinct versions re-read after >=3 later commits; distinct = hash of the history",
		Flavours: []string{"plain"},
		Cases: func(tier string) int {
			if tier == "thorough" {
				return 1500
			}
			return 200
		},
		MinNT: func(tier string) int {
			if tier == "thorough" {
				return 700
			}
			return 80
		},
		Run: runC11,
		Assumptions: []string{
			"no vacuum runs in these histories (the property exempts versions covered by a vacuum cutoff; C09/C10 own vacuum)",
			"a byte-identical retry may change the version name (it rewrites the entry's previous-version link); not generated here",
		},
	})
}

func runC11(c *Case) {
	r := c.R
	nw := r.Range(2, 4)
	if c.Index%5 == 0 {
		nw = 1
	}
	nkeys := r.Range(4, 30)
	epn := []int{4096, 2, 3, 4}[r.Intn(4)]
	w, err := newWorld(c, nw, epn)
	defer w.close()
	if err != nil {
		c.Violate("C11:create", err.Error(), nil)
		return
	}
	h := &vhistory{w: w}
	base := walk.Base(w.prefix)
	cols := hcols
	w.st.PageSize = []int{0, 0, 1, 2}[c.Index%4]
	fail := func(sig, msg string) { c.Violate("C11:"+sig, msg, w.log) }
	rereadN := 0
	reread := func(s *vsnap, at int, how int) bool {
		rereadN++
		c.Count("rereads", 1)
		switch how {
		case 0: // SQL
			hw := w.ws[r.Intn(nw)]
			if hw.inTx {
				return true
			}
			ct := tname(c, "chg")
			q := fmt.Sprintf("create virtual table %s using s3db_changes (table='%s', from='[]', to='%s')", ct, hw.table, s.Raw)
			if err := hw.conn.Exec(q); err != nil {
				fail("reread-sql-error", fmt.Sprintf("step %d: %s: %v", at, q, err))
				return false
			}
			rows, err := hw.conn.Rows("select * from " + ct)
			hw.conn.Exec("drop table " + ct)
			if err != nil {
				fail("reread-sql-error", fmt.Sprintf("step %d: re-reading version %s (taken at step %d) through s3db_changes failed: %v", at, s.Raw, s.Step, err))
				return false
			}
			if d := firstDiff(s.Dump, sortedRows(rows)); d != "" {
				fail("snapshot-changed:sql", fmt.Sprintf("step %d: version %s taken at step %d now reads differently through s3db_changes (recorded vs now): %s", at, s.Raw, s.Step, d))
				return false
			}
		case 1: // Go API, OnlyVersions
			t, err := openVersions(w.st, fmt.Sprintf("reader%d", rereadN), w.prefix, s.Names)
			if err != nil {
				fail("reread-go-error", fmt.Sprintf("step %d: opening restricted to %v failed: %v", at, s.Names, err))
				return false
			}
			rows, err := scanKV(t, cols)
			if err != nil {
				fail("reread-go-error", fmt.Sprintf("step %d: scanning %v failed: %v", at, s.Names, err))
				return false
			}
			if d := firstDiff(s.Dump, rows); d != "" {
				fail("snapshot-changed:go", fmt.Sprintf("step %d: version %v taken at step %d now reads differently through OnlyVersions (recorded vs now): %s", at, s.Names, s.Step, d))
				return false
			}
		default: // bucket decoder (single-version names only)
			if len(s.Names) != 1 {
				return true
			}
			v := walk.Walk(w.st.Snapshot(), base, s.Names[0])
			if len(v.Problems) > 0 {
				fail("snapshot-unreadable", fmt.Sprintf("step %d: version %s taken at step %d: %s", at, s.Names[0], s.Step, v.Problems[0]))
				return false
			}
			if d := firstDiff(s.Dump, v.Dump(cols)); d != "" {
				fail("snapshot-changed:bucket", fmt.Sprintf("step %d: objects of version %s taken at step %d decode to different rows: %s", at, s.Names[0], s.Step, d))
				return false
			}
		}
		return true
	}
	steps := r.Range(10, 40)
	times := r.Perm(steps + 5)
	commitsAfter := 0
	for i := 0; i < steps && c.Res.Status != "violated"; i++ {
		wi := r.Intn(nw)
		hw := w.ws[wi]
		var before *vsnap
		if !hw.inTx {
			before, err = h.record(c, i, wi)
			if err != nil {
				fail("record-error", err.Error())
				return
			}
		}
		x := r.Intn(100)
		faulted := false
		if x < 50 && r.Intn(8) == 0 {
			// the copy of the parent version to root/merged fails once: the commit protocol
			// tolerates that (the parent simply stays listed); no version may get lost by it
			w.st.Client(hw.client).AddFault(fs3.Fault{Op: fs3.OpPut, KeyContain: "/root/merged/", Action: "error"})
			faulted = true
			c.Count("retirement_faults_injected", 1)
		}
		switch {
		case x < 50:
			s, err := w.exec(genVStmt(r, wi, i, nkeys, 10+times[i]))
			if faulted {
				w.st.Client(hw.client).ClearFaults()
				w.logf("   (one PUT under root/merged/ failed during that statement)")
			}
			if err != nil {
				fail("statement-error", err.Error())
				return
			}
			if hw.inTx && s.Accepted {
				// inside a transaction that has written: the function must refuse, or name a
				// version that really holds the rows visible right now
				raw, verr := hw.conn.Scalar("select s3db_version('" + hw.table + "')")
				c.Count("version_calls_inside_dirty_tx", 1)
				if verr == nil {
					cur, derr := hw.conn.Dump(hw.table)
					names := parseVersionList(raw)
					if derr == nil {
						t, oerr := openVersions(w.st, fmt.Sprintf("intx%d", i), w.prefix, names)
						var rows []string
						if oerr == nil {
							rows, oerr = scanKV(t, cols)
						}
						if oerr != nil || firstDiff(cur, rows) != "" {
							fail("version-inside-tx-names-other-rows", fmt.Sprintf("inside a transaction with uncommitted writes s3db_version() answered %s, which does not hold the rows visible at that moment (%v %s)", raw, oerr, firstDiff(cur, rows)))
							return
						}
					}
				}
			}
			if before != nil && !hw.inTx {
				after, err := h.record(c, i, wi)
				if err != nil {
					fail("record-error", err.Error())
					return
				}
				changed := firstDiff(before.Dump, after.Dump) != ""
				if changed {
					commitsAfter++
					c.Count("commits_changing_rows", 1)
					if after.Raw == before.Raw {
						fail("version-not-changed", fmt.Sprintf("s3db_version() stayed %s across %s although the rows changed", after.Raw, s))
						return
					}
				} else if !s.Accepted && after.Raw != before.Raw {
					fail("version-changed-by-noop:"+s.Kind, fmt.Sprintf("s3db_version() changed from %s to %s across a statement that was refused or matched no row: %s", before.Raw, after.Raw, s))
					return
				}
			}
		case x < 60:
			if hw.inTx {
				w.commitTx(wi)
			} else {
				w.begin(wi)
			}
		case x < 72:
			if hw.inTx {
				continue
			}
			if err := w.refresh(wi); err != nil {
				fail("refresh-error", err.Error())
				return
			}
			after, err := h.record(c, i, wi)
			if err != nil {
				fail("record-error", err.Error())
				return
			}
			if before != nil && before.Bucket1 && after.Raw != before.Raw {
				fail("version-changed-by-noop:refresh", fmt.Sprintf("s3db_version() changed from %s to %s across a refresh with nothing new in the bucket", before.Raw, after.Raw))
				return
			}
			c.Count("refreshes", 1)
		case x < 84:
			if hw.inTx || before == nil {
				continue
			}
			// no-op steps
			var q string
			switch r.Intn(4) {
			case 0:
				q = "select count(*) from " + hw.table
				hw.conn.Rows(q)
			case 1:
				q = "begin; commit"
				hw.conn.Exec("begin")
				hw.conn.Exec("commit")
			case 2:
				q = fmt.Sprintf("update %s set a='x' where k=%d", hw.table, 1000+i)
				hw.conn.Exec(q)
			default:
				q = fmt.Sprintf("delete from %s where k=%d", hw.table, 1000+i)
				hw.conn.Exec(q)
			}
			w.logf("w%d no-op: %s", wi, q)
			after, err := h.record(c, i, wi)
			if err != nil {
				fail("record-error", err.Error())
				return
			}
			c.Count("noop_steps", 1)
			if after.Raw != before.Raw {
				fail("version-changed-by-noop:"+strings.Fields(q)[0], fmt.Sprintf("s3db_version() changed from %s to %s across %q", before.Raw, after.Raw, q))
				return
			}
		default:
			// a read-only table over the unmerged versions lists exactly them
			cur := walk.VersionNames(w.st.Snapshot(), base, "current")
			ro := OpenConn("ro")
			rt := tname(c, "ro")
			spec := TableSpec{Name: rt, Cols: "k PRIMARY KEY, a, b, c", Store: w.st.Name, Client: fmt.Sprintf("ro%d", i), Prefix: w.prefix, EPN: epn, ReadOnly: true}
			if err := ro.Create(spec); err != nil {
				ro.Close()
				fail("ro-open-error", err.Error())
				return
			}
			v, err := ro.Scalar("select s3db_version('" + rt + "')")
			if err != nil {
				ro.Close()
				fail("ro-version-error", err.Error())
				return
			}
			got := parseVersionList(v)
			// asked through this table for one member of its several versions, s3db_changes
			// returns that member's rows, not the rows of the merged view
			if len(got) >= 2 {
				for _, n := range got {
					var rec *vsnap
					for j := range h.snaps {
						if len(h.snaps[j].Names) == 1 && h.snaps[j].Names[0] == n {
							rec = &h.snaps[j]
						}
					}
					if rec == nil {
						continue
					}
					ct := tname(c, "rochg")
					if err := ro.Exec(fmt.Sprintf("create virtual table %s using s3db_changes (table='%s', from='[]', to='%s')", ct, rt, rec.Raw)); err != nil {
						ro.Close()
						fail("historic-version-unreadable:through-multi-version-table", fmt.Sprintf("s3db_changes(to=%s) through a read-only table showing %v: %v", rec.Raw, got, err))
						return
					}
					rows, err := ro.Rows("select * from " + ct)
					ro.Exec("drop table " + ct)
					c.Count("members_reread_through_multi_version_table", 1)
					if err != nil {
						ro.Close()
						fail("historic-version-unreadable:through-multi-version-table", fmt.Sprintf("s3db_changes(to=%s) through a read-only table showing %v: %v", rec.Raw, got, err))
						return
					}
					if d := firstDiff(rec.Dump, sortedRows(rows)); d != "" {
						ro.Close()
						fail("historic-version-changed:through-multi-version-table", fmt.Sprintf("version %s read by s3db_changes through a read-only table that shows %v differs from what was recorded (recorded vs got): %s", rec.Raw, got, d))
						return
					}
				}
			}
			ro.Close()
			sort.Strings(got)
			c.Count("readonly_version_lists", 1)
			c.Distinct("unmerged_list_sizes", fmt.Sprint(len(cur)))
			if !eqStrings(got, cur) {
				fail("readonly-version-list", fmt.Sprintf("a read-only table over unmerged versions %v reports s3db_version() = %v", cur, got))
				return
			}
		}
		// re-read a sample of earlier versions now
		for k := 0; k < 2 && len(h.snaps) > 2; k++ {
			s := &h.snaps[r.Intn(len(h.snaps))]
			if !reread(s, i, r.Intn(3)) {
				return
			}
		}
	}
	for wi := range w.ws {
		if w.ws[wi].inTx {
			w.commitTx(wi)
		}
	}
	// at the end every recorded version, every way
	seen := map[string]bool{}
	for i := range h.snaps {
		s := &h.snaps[i]
		if seen[s.Raw] {
			continue
		}
		seen[s.Raw] = true
		for how := 0; how < 3; how++ {
			if !reread(s, steps, how) {
				return
			}
		}
	}
	c.Count("distinct_versions", int64(len(seen)))
	snapN := 0
	for _, ev := range w.st.Log() {
		if ev.Op == fs3.OpPut && strings.Contains(ev.Key, "/root/current/") {
			snapN++
		}
	}
	c.Count("version_objects_written", int64(snapN))
	if len(seen) >= 6 && commitsAfter >= 3 {
		c.NonTrivial(fmt.Sprint(nw, epn, w.log))
	}
	if c.Index < 4 {
		l := w.log
		if len(l) > 12 {
			l = l[:12]
		}
		c.Res.Sample = map[string]interface{}{"writers": nw, "entries_per_node": epn, "history": l, "versions_recorded": len(seen)}
	}
}

func sortedRows(rows []string) []string {
	// s3db_changes yields rows in key order already; keep as is but guard
	// against nil
	if rows == nil {
		return []string{}
	}
	return rows
}
