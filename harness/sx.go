package main

import (
	"context"
	"database/sql"
	"encoding/hex"
	"fmt"
	"sort"
	"strconv"
	"strings"
	"sync/atomic"
	"time"

	sqlite3 "github.com/mattn/go-sqlite3"

	"verifh/fs3"
)

// Conn is one logical SQLite connection (its own :memory: database).
type Conn struct {
	DB   *sql.DB
	c    *sql.Conn
	Name string
}

func OpenConn(name string) *Conn {
	db, err := sql.Open("sqlite3", ":memory:")
	if err != nil {
		panic(err)
	}
	db.SetMaxOpenConns(1)
	c, err := db.Conn(context.Background())
	if err != nil {
		panic(err)
	}
	return &Conn{DB: db, c: c, Name: name}
}

func (c *Conn) Close() {
	if c == nil {
		return
	}
	if c == nil || c.DB == nil {
		return
	}
	c.c.Close()
	c.DB.Close()
	c.DB = nil
}

func (c *Conn) Exec(q string, args ...interface{}) error {
	_, err := c.c.ExecContext(context.Background(), q, args...)
	return err
}

// ExecN returns the number of rows changed.
func (c *Conn) ExecN(q string, args ...interface{}) (int64, error) {
	r, err := c.c.ExecContext(context.Background(), q, args...)
	if err != nil {
		return 0, err
	}
	n, _ := r.RowsAffected()
	return n, nil
}

func renderCell(v interface{}) string {
	switch x := v.(type) {
	case nil:
		return "NULL"
	case int64:
		return "i:" + strconv.FormatInt(x, 10)
	case float64:
		return "r:" + strconv.FormatFloat(x, 'g', -1, 64)
	case string:
		return "t:" + x
	case []byte:
		return "b:" + hex.EncodeToString(x)
	case time.Time:
		return "time:" + x.Format(time.RFC3339Nano)
	case bool:
		if x {
			return "i:1"
		}
		return "i:0"
	}
	return fmt.Sprintf("?%T:%v", v, v)
}

// Query runs a query and renders every cell canonically.
func (c *Conn) Query(q string, args ...interface{}) ([][]string, error) {
	rows, err := c.c.QueryContext(context.Background(), q, args...)
	if err != nil {
		return nil, err
	}
	defer rows.Close()
	cols, err := rows.Columns()
	if err != nil {
		return nil, err
	}
	var out [][]string
	for rows.Next() {
		cells := make([]interface{}, len(cols))
		ptrs := make([]interface{}, len(cols))
		for i := range cells {
			ptrs[i] = &cells[i]
		}
		if err := rows.Scan(ptrs...); err != nil {
			return out, err
		}
		r := make([]string, len(cols))
		for i := range cells {
			r[i] = renderCell(cells[i])
		}
		out = append(out, r)
	}
	if err := rows.Err(); err != nil {
		return out, err
	}
	return out, nil
}

// Rows returns each row joined with "|".
func (c *Conn) Rows(q string, args ...interface{}) ([]string, error) {
	rs, err := c.Query(q, args...)
	out := make([]string, len(rs))
	for i, r := range rs {
		out[i] = strings.Join(r, "|")
	}
	return out, err
}

// Scalar returns the single cell of a one-row query.
func (c *Conn) Scalar(q string, args ...interface{}) (string, error) {
	rs, err := c.Query(q, args...)
	if err != nil {
		return "", err
	}
	if len(rs) != 1 || len(rs[0]) != 1 {
		return "", fmt.Errorf("scalar: %d rows", len(rs))
	}
	return rs[0][0], nil
}

// Dump is the ordered full scan of a table.
func (c *Conn) Dump(table string) ([]string, error) {
	return c.Rows("select * from " + table)
}

func sortedCopy(s []string) []string {
	o := append([]string(nil), s...)
	sort.Strings(o)
	return o
}

func eqStrings(a, b []string) bool {
	if len(a) != len(b) {
		return false
	}
	for i := range a {
		if a[i] != b[i] {
			return false
		}
	}
	return true
}

// errClass classifies a statement outcome.
func errClass(err error) string {
	if err == nil {
		return "ok"
	}
	if se, ok := err.(sqlite3.Error); ok {
		switch se.ExtendedCode {
		case sqlite3.ErrConstraintPrimaryKey, sqlite3.ErrConstraintUnique:
			return "constraint-pk"
		case sqlite3.ErrConstraintNotNull:
			return "constraint-notnull"
		}
		if se.Code == sqlite3.ErrConstraint {
			return "constraint-other"
		}
	}
	s := err.Error()
	switch {
	case strings.Contains(s, "key not unique"), strings.Contains(s, "UNIQUE constraint"):
		return "constraint-pk"
	case strings.Contains(s, "NOT NULL"):
		return "constraint-notnull"
	}
	return "error"
}

// TableSpec describes a CREATE VIRTUAL TABLE ... USING s3db.
type TableSpec struct {
	Name     string
	Cols     string // e.g. "k PRIMARY KEY, a, b"
	Store    string // fs3 store name; "" = built-in in-memory bucket (no hook)
	Client   string
	Prefix   string
	EPN      int
	Cache    int
	ReadOnly bool
}

func (t TableSpec) SQL() string {
	var sb strings.Builder
	fmt.Fprintf(&sb, "create virtual table %s using s3db (columns='%s'", t.Name, t.Cols)
	if t.Store != "" {
		fmt.Fprintf(&sb, ", s3_bucket='b', s3_endpoint='%s'", fs3.Endpoint(t.Store, t.Client))
	}
	if t.Prefix != "" {
		fmt.Fprintf(&sb, ", s3_prefix='%s'", t.Prefix)
	}
	if t.EPN > 0 {
		fmt.Fprintf(&sb, ", entries_per_node=%d", t.EPN)
	}
	if t.Cache > 0 {
		fmt.Fprintf(&sb, ", node_cache_entries=%d", t.Cache)
	}
	if t.ReadOnly {
		sb.WriteString(", readonly")
	}
	sb.WriteString(")")
	return sb.String()
}

func (c *Conn) Create(t TableSpec) error { return c.Exec(t.SQL()) }

var baseTime = time.Date(2020, 1, 1, 0, 0, 0, 0, time.UTC)

func tstr(sec int) string {
	return baseTime.Add(time.Duration(sec) * time.Second).Format("2006-01-02 15:04:05")
}

func tnanos(sec int) int64 { return baseTime.Add(time.Duration(sec) * time.Second).UnixNano() }

func (c *Conn) SetWriteTime(sec int) error {
	return c.Exec("update s3db_conn set write_time=?", tstr(sec))
}

func (c *Conn) ClearWriteTime() error { return c.Exec("update s3db_conn set write_time=NULL") }

var storeSeq int64

// newStore makes and registers a store with a process-unique name.
func newStore() *fs3.Store {
	n := atomic.AddInt64(&storeSeq, 1)
	s := fs3.NewStore(fmt.Sprintf("s%d", n))
	fs3.Register(s)
	return s
}

func dropStore(s *fs3.Store) { fs3.Unregister(s.Name) }

var tableSeq int64

// tname returns a process-unique table name (the registry in s3db is keyed
// by table name only).
func tname(c *Case, tag string) string {
	n := atomic.AddInt64(&tableSeq, 1)
	return fmt.Sprintf("t%d_%s%d", c.Index, tag, n)
}

func lit(v interface{}) string {
	switch x := v.(type) {
	case nil:
		return "NULL"
	case int:
		return strconv.Itoa(x)
	case int64:
		return strconv.FormatInt(x, 10)
	case float64:
		return strconv.FormatFloat(x, 'e', -1, 64)
	case string:
		return "'" + strings.ReplaceAll(x, "'", "''") + "'"
	case []byte:
		return "x'" + hex.EncodeToString(x) + "'"
	}
	return fmt.Sprint(v)
}
