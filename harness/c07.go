package main

import (
	"fmt"
	"math"
	"strings"
	"time"

	"github.com/jrhy/s3db"
)

func init() {
	register(&Check{
		ID:    "C07",
		Level: "exploration",
		Rule: "four case kinds by index: (A) 300 key pairs per case, Key.Order sign vs SQLite's own '?1<?2, ?1=?2' on bound values; (B) 250 triples per case, antisymmetry/transitivity/equality axioms of Key.Order; " +
			"(C) one table per case: 30-150 boundary+random keys of all classes inserted in random order into trees with entries_per_node 2..16, ORDER BY k and every point lookup vs a native table; " +
			"(D) pairs SQLite considers equal (INT n / REAL n.0, +0/-0) inserted one after the other in both orders into trees of varying depth: second INSERT must be a constraint failure, count 1, scan fine, process alive; NULL key refused. " +
			"non-trivial = the case compared at least one cross-class or boundary pair / reached a tree with >=2 levels; distinct = hash of the generated values",
		Flavours: []string{"plain", "asan"},
		FlavourOf: func(tier string, idx int) string {
			if tier == "thorough" && idx%10 == 9 {
				return "asan"
			}
			return "plain"
		},
		Cases: func(tier string) int {
			if tier == "thorough" {
				return 3000
			}
			return 240
		},
		MinNT: func(tier string) int {
			if tier == "thorough" {
				return 1500
			}
			return 40
		},
		Run:             runC07,
		HangIsViolation: true,
		CaseTimeout:     40 * time.Second,
		Assumptions: []string{
			"SQLite's comparison of bound values is the reference order",
			"NaN is not generated: SQLite binds it as NULL",
		},
	})
}

var c07Ints = []int64{0, 1, -1, 2, 3, 4, 8, 15, 16, 17, 255, 256, 4095, 4096, 4097, 65536,
	1 << 31, -(1 << 31), 1<<53 - 1, 1 << 53, 1<<53 + 1, 1<<53 + 2, -(1 << 53), -(1<<53 + 1), -(1<<53 - 1),
	1<<62 - 1, 1 << 62, 1<<62 + 1, math.MaxInt64, math.MaxInt64 - 1, math.MaxInt64 - 512, math.MaxInt64 - 1024,
	math.MinInt64, math.MinInt64 + 1, math.MinInt64 + 1024, 9007199254740993, 9007199254740992, 9007199254740994,
	1000000000000000000, 999999999999999999}

var c07Reals = []float64{0, math.Copysign(0, -1), 1, -1, 0.5, -0.5, 1.5, 2, 3, 4, 16, 4096, 0.1, 1e-300, 5e-324, -5e-324,
	math.SmallestNonzeroFloat64, math.MaxFloat64, -math.MaxFloat64, math.Inf(1), math.Inf(-1),
	9007199254740992, 9007199254740994, 9007199254740991, -9007199254740992, 9223372036854775808.0, -9223372036854775808.0,
	9223372036854774784.0, 9223372036854775807.0, 4611686018427387904.0, 1e18, 1e19, -1e19, 1e15 + 0.5, 4503599627370496.5,
	1e100, -1e100, 255, 256, 65536, 2147483648}

var c07Texts = []string{"", "a", "A", "ab", "aB", "abc", "b", "B", "é", "e", "z", "zz", "0", "1", "10", "9", " ", "a ", "a\x00b", "a\x00", "\x00",
	"ÿ", "\U0001F600", "ÿ", "~", "\x7f", "aa", "aaa", "-1", "1.0", "1e3"}

var c07Blobs = [][]byte{{}, {0}, {0, 0}, {1}, {0xff}, {0xff, 0}, {0x7f}, {0x80}, {'a'}, {'a', 'b'}, {'a', 0}, {0, 'a'}, {0xfe, 0xff}, {0xff, 0xff, 0xff}}

func c07Value(r *Rng) interface{} {
	switch r.Intn(10) {
	case 0, 1:
		return c07Ints[r.Intn(len(c07Ints))]
	case 2, 3:
		return c07Reals[r.Intn(len(c07Reals))]
	case 4:
		return c07Texts[r.Intn(len(c07Texts))]
	case 5:
		return c07Blobs[r.Intn(len(c07Blobs))]
	case 6:
		// random int, often near a real
		if r.Bool() {
			return int64(r.U64())
		}
		return int64(r.Intn(64)) - 32
	case 7:
		switch r.Intn(4) {
		case 0:
			return r.F64Bits()
		case 1:
			return float64(int64(r.U64())) // integral, near int64 range
		case 2:
			return float64(r.Intn(64)-32) / 2
		default:
			return float64(int64(r.Intn(1<<20))) + float64(r.Intn(3))*0.5
		}
	case 8:
		n := r.Intn(5)
		b := make([]byte, n)
		for i := range b {
			b[i] = "abAB\x00é~"[r.Intn(7)]
		}
		return strings.ToValidUTF8(string(b), "?")
	default:
		return r.Bytes(r.Intn(4))
	}
}

// c07Near returns a value numerically close/equal to v in the other numeric class.
func c07Near(r *Rng, v interface{}) interface{} {
	switch x := v.(type) {
	case int64:
		f := float64(x)
		switch r.Intn(3) {
		case 0:
			return f
		case 1:
			return math.Nextafter(f, math.Inf(1))
		default:
			return math.Nextafter(f, math.Inf(-1))
		}
	case float64:
		if x >= -9.3e18 && x <= 9.3e18 {
			i := int64(x)
			return i + int64(r.Intn(3)) - 1
		}
	}
	return c07Value(r)
}

func sign(i int) int {
	if i < 0 {
		return -1
	}
	if i > 0 {
		return 1
	}
	return 0
}

func classOf(v interface{}) string {
	switch v.(type) {
	case int64:
		return "INT"
	case float64:
		return "REAL"
	case string:
		return "TEXT"
	case []byte:
		return "BLOB"
	}
	return "NULL"
}

func sqliteCmp(conn *Conn, a, b interface{}) (int, error) {
	rows, err := conn.Query("select ?1 < ?2, ?1 = ?2, ?1 > ?2", a, b)
	if err != nil {
		return 0, err
	}
	switch {
	case rows[0][0] == "i:1":
		return -1, nil
	case rows[0][1] == "i:1":
		return 0, nil
	case rows[0][2] == "i:1":
		return 1, nil
	}
	return 0, fmt.Errorf("sqlite says neither <, = nor >: %v", rows[0])
}

func safeOrder(a, b interface{}) (res int, perr error) {
	defer func() {
		if e := recover(); e != nil {
			perr = fmt.Errorf("Key.Order panicked: %v", e)
		}
	}()
	return s3db.NewKey(a).Order(s3db.NewKey(b)), nil
}

func pairClass(a, b interface{}) string {
	ca, cb := classOf(a), classOf(b)
	if ca > cb {
		ca, cb = cb, ca
	}
	s := ca + "/" + cb
	if s == "INT/REAL" {
		var i int64
		var f float64
		if x, ok := a.(int64); ok {
			i, f = x, b.(float64)
		} else {
			i, f = b.(int64), a.(float64)
		}
		if i > 1<<53 || i < -(1<<53) || math.Abs(f) > 1<<53 {
			s += ":beyond-2^53"
		}
	}
	return s
}

func runC07(c *Case) {
	kind := c.Index % 8
	switch {
	case kind <= 2:
		c07Pairs(c)
	case kind == 3:
		c07Triples(c)
	case kind <= 5:
		c07Tables(c)
	default:
		c07EqualPairs(c)
	}
}

func c07Pairs(c *Case) {
	r := c.R
	conn := OpenConn("cmp")
	defer conn.Close()
	var canon strings.Builder
	for i := 0; i < 300; i++ {
		a := c07Value(r)
		var b interface{}
		if r.Intn(3) == 0 {
			b = c07Near(r, a)
		} else {
			b = c07Value(r)
		}
		want, err := sqliteCmp(conn, a, b)
		if err != nil {
			c.Inconclusive("sqlite compare failed: " + err.Error())
			return
		}
		got, perr := safeOrder(a, b)
		c.Count("pairs_compared", 1)
		pc := pairClass(a, b)
		c.Distinct("pair_classes", pc)
		fmt.Fprintf(&canon, "%s,%s;", lit(a), lit(b))
		if perr != nil {
			c.Violate("C07:order-panic:"+pc, fmt.Sprintf("%v on (%s, %s)", perr, lit(a), lit(b)), nil)
			continue
		}
		if sign(got) != want {
			sub := ""
			if want == 0 || got == 0 {
				sub = ":equality"
			}
			c.Violate("C07:order-differs:"+pc+sub, fmt.Sprintf("Key.Order(%s, %s) = %d but SQLite orders them %d", lit(a), lit(b), got, want), nil)
		}
		if want == 0 {
			c.Count("pairs_sqlite_equal", 1)
		}
	}
	c.NonTrivial(canon.String())
	if c.Index < 3 {
		c.Res.Sample = map[string]interface{}{"kind": "pairs", "first": canon.String()[:min(300, canon.Len())]}
	}
}

func min(a, b int) int {
	if a < b {
		return a
	}
	return b
}

func c07Triples(c *Case) {
	r := c.R
	var canon strings.Builder
	for i := 0; i < 250; i++ {
		a := c07Value(r)
		b := c07Value(r)
		if r.Intn(3) == 0 {
			b = c07Near(r, a)
		}
		cc := c07Value(r)
		if r.Intn(3) == 0 {
			cc = c07Near(r, b)
		}
		fmt.Fprintf(&canon, "%s,%s,%s;", lit(a), lit(b), lit(cc))
		c.Count("triples_checked", 1)
		ab, e1 := safeOrder(a, b)
		ba, e2 := safeOrder(b, a)
		bc, e3 := safeOrder(b, cc)
		ac, e4 := safeOrder(a, cc)
		aa, e5 := safeOrder(a, a)
		if e1 != nil || e2 != nil || e3 != nil || e4 != nil || e5 != nil {
			c.Violate("C07:order-panic:"+pairClass(a, b), fmt.Sprintf("Key.Order panicked on (%s,%s,%s)", lit(a), lit(b), lit(cc)), nil)
			continue
		}
		if aa != 0 {
			c.Violate("C07:axiom:reflexive", fmt.Sprintf("Order(%s,%s)=%d", lit(a), lit(a), aa), nil)
		}
		if sign(ab) != -sign(ba) {
			c.Violate("C07:axiom:antisymmetry:"+pairClass(a, b), fmt.Sprintf("Order(%s,%s)=%d but Order(%s,%s)=%d", lit(a), lit(b), ab, lit(b), lit(a), ba), nil)
		}
		if sign(ab) <= 0 && sign(bc) <= 0 && sign(ac) > 0 {
			c.Violate("C07:axiom:transitivity:"+pairClass(a, cc), fmt.Sprintf("%s<=%s<=%s but Order(a,c)=%d", lit(a), lit(b), lit(cc), ac), nil)
		}
		if ab == 0 && bc == 0 && ac != 0 {
			c.Violate("C07:axiom:equality-transitive:"+pairClass(a, cc), fmt.Sprintf("%s=%s=%s but Order(a,c)=%d", lit(a), lit(b), lit(cc), ac), nil)
		}
		if ab == 0 && sign(bc) != sign(ac) {
			c.Violate("C07:axiom:equal-keys-order-alike:"+pairClass(a, b), fmt.Sprintf("%s=%s but they order differently against %s (%d vs %d)", lit(a), lit(b), lit(cc), ac, bc), nil)
		}
	}
	c.NonTrivial(canon.String())
	if c.Index < 8 {
		c.Res.Sample = map[string]interface{}{"kind": "triples", "first": canon.String()[:min(300, canon.Len())]}
	}
}

// numericTwin reports whether two values are numerically equal but of different class.
func sqliteEqual(conn *Conn, a, b interface{}) bool {
	cmp, err := sqliteCmp(conn, a, b)
	return err == nil && cmp == 0
}

func c07Tables(c *Case) {
	r := c.R
	epn := []int{2, 3, 4, 16}[r.Intn(4)]
	st := newStore()
	defer dropStore(st)
	conn := OpenConn("t")
	defer conn.Close()
	vt := tname(c, "v")
	nt := "n_" + vt
	spec := TableSpec{Name: vt, Cols: "k PRIMARY KEY, a", Store: st.Name, Client: "w", Prefix: "p", EPN: epn}
	if err := conn.Create(spec); err != nil {
		c.Violate("C07:create", err.Error(), nil)
		return
	}
	conn.Exec(fmt.Sprintf("create table %s(k primary key, a) without rowid", nt))
	n := r.Range(30, 150)
	var vals []interface{}
	for len(vals) < n {
		v := c07Value(r)
		// distinct under SQLite's equality; equal pairs are kind D's business,
		// and the empty TEXT is C08's known finding
		if s, ok := v.(string); ok && s == "" {
			continue
		}
		dup := false
		for _, w := range vals {
			if classOf(v)[0] == classOf(w)[0] || (classOf(v) != "TEXT" && classOf(v) != "BLOB" && classOf(w) != "TEXT" && classOf(w) != "BLOB") {
				if sqliteEqual(conn, v, w) {
					dup = true
					break
				}
			}
		}
		if !dup {
			vals = append(vals, v)
		}
	}
	var canon strings.Builder
	useTx := r.Bool()
	if useTx {
		conn.Exec("begin")
	}
	for i, v := range vals {
		fmt.Fprintf(&canon, "%s;", lit(v))
		ev := conn.Exec("insert into "+vt+" values (?,?)", v, i)
		en := conn.Exec("insert into "+nt+" values (?,?)", v, i)
		if errClass(ev) != errClass(en) {
			c.Violate("C07:insert-outcome:"+classOf(v), fmt.Sprintf("insert of key %s: native %v, s3db %v", lit(v), en, ev), canon.String())
			return
		}
	}
	if useTx {
		if err := conn.Exec("commit"); err != nil {
			c.Violate("C07:commit", err.Error(), canon.String())
			return
		}
	}
	for _, q := range []string{"select k, a from %s order by k", "select k from %s order by k desc", "select typeof(k), count(*) from %s group by 1 order by 1"} {
		rv, ev := conn.Rows(fmt.Sprintf(q, vt))
		rn, _ := conn.Rows(fmt.Sprintf(q, nt))
		if ev != nil {
			c.Violate("C07:scan-error", fmt.Sprintf("%s: %v", q, ev), canon.String())
			return
		}
		if d := firstDiff(rn, rv); d != "" {
			c.Violate("C07:order-by-differs", fmt.Sprintf("%s differs from native: %s", q, d), canon.String())
			return
		}
	}
	c.Count("tables_ordered", 1)
	c.Count("keys_inserted", int64(len(vals)))
	// every key addresses its own row
	for i, v := range vals {
		rv, err := conn.Rows("select a from "+vt+" where k = ?", v)
		if err != nil || len(rv) != 1 || rv[0] != fmt.Sprintf("i:%d", i) {
			c.Violate("C07:point-lookup:"+classOf(v), fmt.Sprintf("where k = %s returned %v (err %v), want a=%d", lit(v), rv, err, i), canon.String())
			return
		}
		c.Count("point_lookups", 1)
	}
	// a stored numeric key is also addressed by its other representation (INTEGER n <-> REAL n.0, +0.0 <-> -0.0)
	for i, v := range vals {
		var tw interface{}
		switch x := v.(type) {
		case int64:
			if f := float64(x); int64(f) == x && f < 9e18 && f > -9e18 {
				tw = f
			}
		case float64:
			if x == 0 {
				tw = math.Copysign(0, -1)
				if math.Signbit(x) {
					tw = float64(0)
				}
			} else if x == float64(int64(x)) && x < 9e18 && x > -9e18 {
				tw = int64(x)
			}
		}
		if tw == nil {
			continue
		}
		rv, err := conn.Rows("select a from "+vt+" where k = ?", tw)
		c.Count("twin_lookups", 1)
		if err != nil || len(rv) != 1 || rv[0] != fmt.Sprintf("i:%d", i) {
			c.Violate("C07:twin-lookup:"+classOf(v), fmt.Sprintf("where k = %s (the stored key is %s) returned %v (err %v), want a=%d", lit(tw), lit(v), rv, err, i), canon.String())
			return
		}
	}
	// a second INSERT of a stored key is a constraint failure whatever write time it carries
	for j := 0; j < 4 && len(vals) > 0; j++ {
		v := vals[r.Intn(len(vals))]
		conn.SetWriteTime(50 + j) // far older than the rows (inserted on the default clock)
		err := conn.Exec("insert into "+vt+" values (?,?)", v, "again")
		conn.ClearWriteTime()
		c.Count("older_stamped_second_inserts", 1)
		if errClass(err) != "constraint-pk" {
			c.Violate("C07:second-insert-older-write-time-"+errClass(err), fmt.Sprintf("a second INSERT of stored key %s with an older write_time gave %v, want a primary key constraint failure", lit(v), err), canon.String())
			return
		}
	}
	// NULL key
	if err := conn.Exec("insert into " + vt + " values (NULL, 1)"); err == nil {
		c.Violate("C07:null-key-accepted", "INSERT of a NULL key succeeded", nil)
	} else {
		c.Count("null_key_refused", 1)
	}
	c.NonTrivial(canon.String())
	if c.Index < 16 {
		c.Res.Sample = map[string]interface{}{"kind": "table", "entries_per_node": epn, "keys": len(vals), "first": canon.String()[:min(200, canon.Len())]}
	}
}

func c07EqualPairs(c *Case) {
	r := c.R
	conn := OpenConn("t")
	defer conn.Close()
	var canon strings.Builder
	for p := 0; p < 12; p++ {
		// a pair SQLite considers equal, in different representations
		var a, b interface{}
		switch r.Intn(6) {
		case 0:
			a, b = 0.0, math.Copysign(0, -1)
		case 1:
			a, b = int64(0), math.Copysign(0, -1)
		case 2:
			i := c07Ints[r.Intn(len(c07Ints))]
			if float64(i) >= 9.3e18 || int64(float64(i)) != i {
				i = int64(r.Intn(4096))
			}
			a, b = i, float64(i)
		default:
			i := int64(r.Intn(600)) - 100
			if r.Intn(3) == 0 {
				i *= int64(r.PickInt([]int{2, 3, 4, 16, 256}))
			}
			a, b = i, float64(i)
		}
		if !sqliteEqual(conn, a, b) {
			continue
		}
		if r.Bool() {
			a, b = b, a
		}
		epn := []int{2, 3, 4, 16, 4096}[r.Intn(5)]
		st := newStore()
		vt := tname(c, "e")
		spec := TableSpec{Name: vt, Cols: "k PRIMARY KEY, a", Store: st.Name, Client: "w", Prefix: "p", EPN: epn}
		if err := conn.Create(spec); err != nil {
			c.Violate("C07:create", err.Error(), nil)
			dropStore(st)
			return
		}
		// surround with neighbours so that the pair sits inside a real tree
		nb := r.Range(0, 40)
		for i := 0; i < nb; i++ {
			nv := int64(r.Intn(2000)) - 500
			if sqliteEqual(conn, nv, a) {
				continue
			}
			conn.Exec("insert into "+vt+" values (?,?)", nv, "n")
		}
		desc := fmt.Sprintf("%s then %s, entries_per_node=%d, %d neighbours", lit(a), lit(b), epn, nb)
		fmt.Fprintf(&canon, "%s;", desc)
		// the two INSERTs are separate statements, or share one transaction, or are one multi-row INSERT
		// (which then fails as a whole; the first value is inserted alone afterwards)
		together := r.Intn(3)
		if together == 2 {
			errm := conn.Exec("insert into "+vt+" values (?,?),(?,?)", a, "first", b, "second")
			c.Count("equal_pairs_in_one_statement", 1)
			if errClass(errm) != "constraint-pk" {
				c.Violate("C07:equal-pair:multi-row-insert-"+errClass(errm), fmt.Sprintf("%s: one INSERT with both values gave %v, want a primary key constraint failure", desc, errm), nil)
			}
			desc += " (after a multi-row INSERT of both)"
		}
		if together == 1 {
			conn.Exec("begin")
			desc += " (in one transaction)"
		}
		if err := conn.Exec("insert into "+vt+" values (?,?)", a, "first"); err != nil {
			if together == 1 {
				conn.Exec("rollback")
			}
			c.Violate("C07:equal-pair:first-insert-failed", desc+": "+err.Error(), nil)
		} else {
			err2 := conn.Exec("insert into "+vt+" values (?,?)", b, "second")
			if together == 1 {
				if errc := conn.Exec("commit"); errc != nil {
					c.Violate("C07:equal-pair:commit-error", desc+": "+errc.Error(), nil)
				}
			}
			c.Count("equal_pairs_inserted", 1)
			if errClass(err2) != "constraint-pk" {
				c.Violate("C07:equal-pair:second-insert-"+errClass(err2), fmt.Sprintf("%s: second INSERT of an equal key gave %v, want a primary key constraint failure", desc, err2), nil)
			}
			rv, err := conn.Rows("select count(*) from "+vt+" where k = ?", a)
			if err != nil || len(rv) != 1 || rv[0] != "i:1" {
				c.Violate("C07:equal-pair:count", fmt.Sprintf("%s: count(*) where k = first is %v (err %v), want 1", desc, rv, err), nil)
			}
			if _, err := conn.Rows("select * from " + vt + " order by k"); err != nil {
				c.Violate("C07:equal-pair:scan-error", desc+": later scan fails: "+err.Error(), nil)
			}
			rv, err = conn.Rows("select count(*), count(distinct k) from " + vt)
			if err == nil && len(rv) == 1 {
				parts := strings.Split(rv[0], "|")
				if parts[0] != parts[1] {
					c.Violate("C07:equal-pair:twin-rows", fmt.Sprintf("%s: table has %s rows but %s distinct keys", desc, parts[0], parts[1]), nil)
				}
			}
		}
		// an UPDATE that assigns the key the equal value of the other
		// representation addresses the same row: its other assignment lands
		// on that row, whichever representation the key keeps, and the row
		// stays one row (draws nothing from the case's PRNG)
		if c.Res.Status != "violated" {
			erru := conn.Exec("update "+vt+" set k = ?, a = ? where k = ?", b, "upd", a)
			c.Count("equal_key_assigned_by_update", 1)
			// an implementation may refuse to assign the key at all; then the
			// row is as it was. Accepted, the assignment is on that one row.
			wantA := "t:upd"
			if cl := errClass(erru); cl != "ok" {
				wantA = "t:first"
				c.Count("equal_key_assignment_refused", 1)
			}
			for _, probe := range []interface{}{a, b} {
				rv, err := conn.Rows("select a from "+vt+" where k = ?", probe)
				if err != nil || len(rv) != 1 || rv[0] != wantA {
					c.Violate("C07:equal-pair:update-to-equal-key-lost", fmt.Sprintf("%s: after UPDATE SET k = second, a = 'upd' WHERE k = first (%v), select a where k = %s is %v (err %v), want one row %s", desc, erru, lit(probe), rv, err, wantA), nil)
					break
				}
			}
			rv, err := conn.Rows("select count(*), count(distinct k) from " + vt)
			if err == nil && len(rv) == 1 {
				parts := strings.Split(rv[0], "|")
				if parts[0] != parts[1] {
					c.Violate("C07:equal-pair:twin-rows", fmt.Sprintf("%s: after UPDATE to the equal key the table has %s rows but %s distinct keys", desc, parts[0], parts[1]), nil)
				}
			}
			if _, err := conn.Rows("select * from " + vt + " order by k"); err != nil {
				c.Violate("C07:equal-pair:scan-error", desc+": scan after UPDATE to the equal key fails: "+err.Error(), nil)
			}
		}
		// delete the first, then insert the other representation: it may be
		// refused or accepted, but it must stay one key and a sound table
		if c.Res.Status != "violated" {
			conn.Exec("delete from "+vt+" where k = ?", a)
			err3 := conn.Exec("insert into "+vt+" values (?,?)", b, "third")
			c.Count("equal_pairs_reinserted_after_delete", 1)
			if cl := errClass(err3); cl != "ok" && cl != "constraint-pk" {
				c.Violate("C07:equal-pair:reinsert-after-delete-"+cl, fmt.Sprintf("%s: after DELETE of the first, INSERT of the equal key gave %v", desc, err3), nil)
			}
			rv, err := conn.Rows("select count(*) from "+vt+" where k = ?", b)
			want := "i:0"
			if err3 == nil {
				want = "i:1"
			}
			if err != nil || len(rv) != 1 || rv[0] != want {
				c.Violate("C07:equal-pair:count-after-reinsert", fmt.Sprintf("%s: after delete and re-insert (%v) count(*) where k = second is %v (err %v), want %s", desc, err3, rv, err, want), nil)
			}
			if _, err := conn.Rows("select * from " + vt + " order by k"); err != nil {
				c.Violate("C07:equal-pair:scan-error", desc+": scan after delete and re-insert fails: "+err.Error(), nil)
			}
			// and more rows around it still go in
			for i := 0; i < 6; i++ {
				if err := conn.Exec("insert into "+vt+" values (?,?)", int64(5000+i), "after"); err != nil {
					c.Violate("C07:equal-pair:later-insert-error", desc+": a later insert fails: "+err.Error(), nil)
					break
				}
			}
		}
		conn.Exec("drop table " + vt)
		dropStore(st)
	}
	c.NonTrivial(canon.String())
	if c.Index < 16 {
		c.Res.Sample = map[string]interface{}{"kind": "equal-pairs", "pairs": canon.String()[:min(300, canon.Len())]}
	}
}
