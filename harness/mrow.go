package main

import (
	"fmt"
	"sort"
	"strings"

	"verifh/fs3"
)

// HStmt is one statement of a multi-writer history.
type HStmt struct {
	ID       int               `json:"id"`
	W        int               `json:"w"`
	Kind     string            `json:"kind"` // ins | upd | del
	Key      int               `json:"key"`
	Cols     map[string]string `json:"cols,omitempty"` // column -> rendered value ("NULL" or "t:...")
	T        int               `json:"t"`              // write time, seconds after baseTime
	Accepted bool              `json:"accepted"`
	RetryOf  int               `json:"retry_of,omitempty"` // ID of the statement this one repeats byte for byte (0 = none)
}

func (s HStmt) String() string {
	var cs []string
	for _, c := range hcols {
		if v, ok := s.Cols[c]; ok {
			cs = append(cs, c+"="+v)
		}
	}
	acc := ""
	if !s.Accepted {
		acc = " (not accepted)"
	}
	re := ""
	if s.RetryOf != 0 {
		re = fmt.Sprintf(" retry-of=%d", s.RetryOf)
	}
	return fmt.Sprintf("#%d w%d @%d %s k%d %s%s%s", s.ID, s.W, s.T, s.Kind, s.Key, strings.Join(cs, ","), re, acc)
}

var hcols = []string{"a", "b", "c"}

// mrow is the executable model of the README's "Multiple Writers" paragraph:
// per key the latest INSERT/DELETE decides the status; for a live row every
// column holds the value of the latest statement assigning it among those not
// older than that INSERT.
func mrow(stmts []HStmt) []string {
	byKey := map[int][]HStmt{}
	for _, s := range stmts {
		if s.Accepted {
			byKey[s.Key] = append(byKey[s.Key], s)
		}
	}
	var keys []int
	for k := range byKey {
		keys = append(keys, k)
	}
	sort.Ints(keys)
	var out []string
	for _, k := range keys {
		ss := byKey[k]
		var status *HStmt
		for i := range ss {
			if ss[i].Kind == "ins" || ss[i].Kind == "del" {
				if status == nil || ss[i].T > status.T {
					status = &ss[i]
				}
			}
		}
		if status == nil || status.Kind == "del" {
			continue
		}
		vals := map[string]string{}
		times := map[string]int{}
		for _, s := range ss {
			if s.Kind == "del" || s.T < status.T {
				continue
			}
			for c, v := range s.Cols {
				if t, ok := times[c]; !ok || s.T > t {
					vals[c] = v
					times[c] = s.T
				}
			}
		}
		row := fmt.Sprintf("i:%d", k)
		for _, c := range hcols {
			v, ok := vals[c]
			if !ok {
				v = "NULL"
			}
			row += "|" + v
		}
		out = append(out, row)
	}
	return out
}

// hwriter is one writer of a history world.
type hwriter struct {
	conn   *Conn
	table  string
	client string
	past   map[int]bool // statement ids in the causal past (own + merged)
	commit map[int]bool // causal past as of its last commit
	inTx   bool
}

// hworld drives one multi-writer history against one bucket prefix.
type hworld struct {
	c      *Case
	st     *fs3.Store
	prefix string
	epn    int
	cache  int // node_cache_entries of the writers' tables (0 = none)
	ws     []*hwriter
	stmts  []HStmt // in execution order
	log    []string
	nextID int
}

func newWorld(c *Case, nw, epn int) (*hworld, error) {
	w := &hworld{c: c, st: newStore(), prefix: "p", epn: epn}
	for i := 0; i < nw; i++ {
		if _, err := w.addWriter(); err != nil {
			return w, err
		}
	}
	return w, nil
}

func (w *hworld) addWriter() (*hwriter, error) {
	i := len(w.ws)
	hw := &hwriter{conn: OpenConn(fmt.Sprintf("w%d", i)), table: tname(w.c, fmt.Sprintf("w%d_", i)), client: fmt.Sprintf("w%d", i),
		past: map[int]bool{}, commit: map[int]bool{}}
	w.ws = append(w.ws, hw)
	// a writer that opens now merges everything committed so far
	w.mergeInto(hw)
	spec := TableSpec{Name: hw.table, Cols: "k PRIMARY KEY, a, b, c", Store: w.st.Name, Client: hw.client, Prefix: w.prefix, EPN: w.epn, Cache: w.cache}
	if err := hw.conn.Create(spec); err != nil {
		return hw, err
	}
	hw.commit = copySet(hw.past)
	return hw, nil
}

func copySet(m map[int]bool) map[int]bool {
	o := make(map[int]bool, len(m))
	for k := range m {
		o[k] = true
	}
	return o
}

func (w *hworld) mergeInto(hw *hwriter) {
	for _, o := range w.ws {
		for id := range o.commit {
			hw.past[id] = true
		}
	}
}

func (w *hworld) close() {
	for _, hw := range w.ws {
		hw.conn.Close()
	}
	dropStore(w.st)
}

func (w *hworld) logf(format string, a ...interface{}) {
	w.log = append(w.log, fmt.Sprintf(format, a...))
}

// exec runs one statement on its writer and records acceptance.
func (w *hworld) exec(s HStmt) (HStmt, error) {
	hw := w.ws[s.W]
	w.nextID++
	s.ID = w.nextID
	if err := hw.conn.SetWriteTime(s.T); err != nil {
		return s, fmt.Errorf("set write_time: %w", err)
	}
	var q string
	var args []interface{}
	val := func(v string) interface{} {
		if v == "NULL" {
			return nil
		}
		return strings.TrimPrefix(v, "t:")
	}
	switch s.Kind {
	case "ins":
		cols := []string{"k"}
		args = append(args, int64(s.Key))
		for _, c := range hcols {
			if v, ok := s.Cols[c]; ok && v != "NULL" {
				cols = append(cols, c)
				args = append(args, val(v))
			}
		}
		q = fmt.Sprintf("insert into %s(%s) values (%s)", hw.table, strings.Join(cols, ","), strings.TrimSuffix(strings.Repeat("?,", len(cols)), ","))
	case "upd":
		var sets []string
		for _, c := range hcols {
			if v, ok := s.Cols[c]; ok {
				sets = append(sets, c+"=?")
				args = append(args, val(v))
			}
		}
		args = append(args, int64(s.Key))
		q = fmt.Sprintf("update %s set %s where k=?", hw.table, strings.Join(sets, ","))
	case "del":
		q = fmt.Sprintf("delete from %s where k=?", hw.table)
		args = append(args, int64(s.Key))
	}
	n, err := hw.conn.ExecN(q, args...)
	cls := errClass(err)
	if cls == "error" {
		w.logf("%s -> ERROR %v", s, err)
		return s, err
	}
	s.Accepted = cls == "ok" && n >= 1
	if s.Kind == "ins" {
		// an INSERT assigns every column: NULL for the unmentioned ones
		full := map[string]string{}
		for _, c := range hcols {
			full[c] = "NULL"
		}
		for c, v := range s.Cols {
			full[c] = v
		}
		s.Cols = full
	}
	w.stmts = append(w.stmts, s)
	if s.Accepted {
		hw.past[s.ID] = true
		if !hw.inTx {
			hw.commit = copySet(hw.past)
		}
	}
	w.logf("%s", s)
	return s, nil
}

func (w *hworld) begin(wi int) error {
	hw := w.ws[wi]
	hw.inTx = true
	w.logf("w%d BEGIN", wi)
	return hw.conn.Exec("begin")
}

func (w *hworld) commitTx(wi int) error {
	hw := w.ws[wi]
	err := hw.conn.Exec("commit")
	hw.inTx = false
	if err == nil {
		hw.commit = copySet(hw.past)
	}
	w.logf("w%d COMMIT -> %v", wi, err)
	return err
}

// refresh makes a writer merge everything committed so far.
func (w *hworld) refresh(wi int) error {
	hw := w.ws[wi]
	err := hw.conn.Exec("select s3db_refresh('" + hw.table + "')")
	if err == nil {
		w.mergeInto(hw)
		hw.commit = copySet(hw.past)
	}
	w.logf("w%d REFRESH -> %v", wi, err)
	return err
}

// pastStmts returns the statements of a writer's causal past.
func (w *hworld) pastStmts(hw *hwriter) []HStmt {
	var out []HStmt
	for _, s := range w.stmts {
		if hw.past[s.ID] {
			out = append(out, s)
		}
	}
	return out
}

// committed returns every statement committed by anyone.
func (w *hworld) committed() []HStmt {
	all := map[int]bool{}
	for _, hw := range w.ws {
		for id := range hw.commit {
			all[id] = true
		}
	}
	var out []HStmt
	for _, s := range w.stmts {
		if all[s.ID] {
			out = append(out, s)
		}
	}
	return out
}

// freshDump opens the prefix from a new connection and dumps it.
func (w *hworld) freshDump(readOnly bool, client string) ([]string, error) {
	conn := OpenConn(client)
	defer conn.Close()
	t := tname(w.c, "f")
	spec := TableSpec{Name: t, Cols: "k PRIMARY KEY, a, b, c", Store: w.st.Name, Client: client, Prefix: w.prefix, EPN: w.epn, ReadOnly: readOnly}
	if err := conn.Create(spec); err != nil {
		return nil, err
	}
	return conn.Dump(t)
}

// conflictShape summarises, per key, the kinds of accepted statements and the
// writers involved - the canonical form used to count distinct histories.
func conflictShape(stmts []HStmt) (shape string, conflicts int) {
	type ks struct {
		writers map[int]bool
		pat     []string
		nonMono bool
		lastT   map[int]int
	}
	m := map[int]*ks{}
	for _, s := range stmts {
		if !s.Accepted {
			continue
		}
		k := m[s.Key]
		if k == nil {
			k = &ks{writers: map[int]bool{}, lastT: map[int]int{}}
			m[s.Key] = k
		}
		k.writers[s.W] = true
		if lt, ok := k.lastT[s.W]; ok && s.T < lt {
			k.nonMono = true
		}
		k.lastT[s.W] = s.T
		k.pat = append(k.pat, fmt.Sprintf("%s%d@%d", s.Kind[:1], s.W, s.T))
	}
	var keys []int
	for k := range m {
		keys = append(keys, k)
	}
	sort.Ints(keys)
	var sb strings.Builder
	for _, k := range keys {
		x := m[k]
		if (len(x.writers) >= 2 && len(x.pat) >= 2) || x.nonMono {
			conflicts++
		}
		fmt.Fprintf(&sb, "k%d:%s;", k, strings.Join(x.pat, ","))
	}
	return sb.String(), conflicts
}

// genHistory produces a random statement plan (without executing it).
type hplan struct {
	NW    int
	NKeys int
	Steps []hstep
}

type hstep struct {
	Op   string // stmt | refresh | begin | commit
	W    int
	Stmt HStmt
}

func genPlan(r *Rng, nw, nkeys, nstmts int, refreshP float64, txP float64) hplan {
	p := hplan{NW: nw, NKeys: nkeys}
	times := r.Perm(nstmts + 5)
	inTx := make([]int, nw) // remaining statements of the open tx, 0 = none
	for i := 0; i < nstmts; i++ {
		wi := r.Intn(nw)
		if r.Chance(refreshP) {
			ri := r.Intn(nw)
			if inTx[ri] == 0 {
				p.Steps = append(p.Steps, hstep{Op: "refresh", W: ri})
			}
		}
		if inTx[wi] == 0 && r.Chance(txP) {
			p.Steps = append(p.Steps, hstep{Op: "begin", W: wi})
			inTx[wi] = r.Range(1, 4)
		}
		if inTx[wi] == 0 && i+2 < nstmts && r.Intn(14) == 0 {
			// a column is assigned the value it already holds at a newer time (still the row's latest
			// change), then a statement stamped in between arrives: it must lose
			ts := []int{times[i], times[i+1], times[i+2]}
			sort.Ints(ts)
			key, col := 1+r.Intn(nkeys), hcols[r.Intn(len(hcols))]
			v := fmt.Sprintf("t:same%d", i)
			w2, w3 := wi, wi
			if r.Bool() {
				if o := r.Intn(nw); inTx[o] == 0 {
					w2 = o
				}
				if o := r.Intn(nw); inTx[o] == 0 {
					w3 = o
				}
			}
			p.Steps = append(p.Steps,
				hstep{Op: "stmt", W: wi, Stmt: HStmt{W: wi, Kind: "upd", Key: key, T: 10 + ts[0], Cols: map[string]string{col: v}}},
				hstep{Op: "stmt", W: w2, Stmt: HStmt{W: w2, Kind: "upd", Key: key, T: 10 + ts[2], Cols: map[string]string{col: v}}})
			if w3 != w2 && r.Bool() {
				p.Steps = append(p.Steps, hstep{Op: "refresh", W: w3})
			}
			p.Steps = append(p.Steps, hstep{Op: "stmt", W: w3, Stmt: HStmt{W: w3, Kind: "upd", Key: key, T: 10 + ts[1], Cols: map[string]string{col: fmt.Sprintf("t:between%d", i)}}})
			i += 2
			continue
		}
		s := HStmt{W: wi, Key: 1 + r.Intn(nkeys), T: 10 + times[i]}
		tag := fmt.Sprintf("t:w%ds%d", wi, i)
		// mostly a value that no other statement writes; now and then one of two common values, so
		// that a column is also assigned the value it already holds (still a write, with its time)
		val := func(c string) string {
			if r.Intn(6) == 0 {
				return []string{"t:x", "t:y"}[r.Intn(2)]
			}
			return tag + c
		}
		x := r.Intn(100)
		switch {
		case x < 35:
			s.Kind = "ins"
			s.Cols = map[string]string{}
			for _, c := range hcols {
				if r.Intn(4) != 0 {
					s.Cols[c] = val(c)
				}
			}
		case x < 75:
			s.Kind = "upd"
			s.Cols = map[string]string{}
			n := 0
			for _, c := range hcols {
				if r.Intn(2) == 0 {
					s.Cols[c] = val(c)
					n++
				}
			}
			if n == 0 {
				s.Cols[hcols[r.Intn(len(hcols))]] = tag
			}
			if r.Intn(10) == 0 {
				s.Cols[hcols[r.Intn(len(hcols))]] = "NULL"
			}
		default:
			s.Kind = "del"
		}
		p.Steps = append(p.Steps, hstep{Op: "stmt", W: wi, Stmt: s})
		if inTx[wi] > 0 {
			inTx[wi]--
			if inTx[wi] == 0 {
				p.Steps = append(p.Steps, hstep{Op: "commit", W: wi})
			}
		}
	}
	for wi := range inTx {
		if inTx[wi] > 0 {
			p.Steps = append(p.Steps, hstep{Op: "commit", W: wi})
		}
	}
	return p
}
