package main

import (
	"fmt"
	"math"
	"sort"
	"strings"

	"verifh/walk"
)

func init() {
	register(&Check{
		ID:    "C06",
		Level: "exploration",
		Rule: "random single-writer programs (INSERT single/multi-row, UPDATE of non-key columns, DELETE, BEGIN/COMMIT/ROLLBACK, re-open) fed statement by statement to the s3db table and to a native WITHOUT ROWID table with the same untyped columns in the same connection; " +
			"every statement's outcome class and every query's result (key predicates =,<,<=,>,>=,IN,BETWEEN and conjunctions, ORDER BY asc/desc one and two terms, LIMIT/OFFSET, aggregates, GROUP BY) are compared; " +
			"non-trivial = at least one range scan crossed a node boundary on a tree with >=2 levels (measured by decoding the bucket); distinct = hash of the program",
		Flavours: []string{"plain"},
		Cases: func(tier string) int {
			if tier == "thorough" {
				return 6000
			}
			return 200
		},
		MinNT: func(tier string) int {
			if tier == "thorough" {
				return 1000
			}
			return 40
		},
		Run: runC06,
		Assumptions: []string{
			"native SQLite (same library, same connection) is the reference for statement outcomes and query results",
			"columns are untyped on both sides so that type affinity (which the README excludes) cannot differ",
			"numerically equal INT/REAL keys and the empty string are left to C07/C08",
		},
	})
}

type c06stmt struct {
	q    string // with %T for the table name
	args []interface{}
}

func (s c06stmt) String() string {
	var as []string
	for _, a := range s.args {
		as = append(as, lit(a))
	}
	if len(as) == 0 {
		return s.q
	}
	return s.q + "  -- " + strings.Join(as, ", ")
}

func runC06(c *Case) {
	r := c.R
	epn := epnChoices[c.Index%len(epnChoices)]
	variant := (c.Index / len(epnChoices)) % 6 // 4: cache on, 5: built-in bucket (no hook)
	cacheOn := variant == 4
	builtin := variant == 5
	notNullA := r.Intn(3) == 0
	explicitTime := r.Bool()
	if cacheOn && epn == 4096 {
		// the few cache-on cases whose signature is not the known finding's get the NOT NULL column
		// and explicit write times, where objects shared through the cache have something to show
		notNullA, explicitTime = true, true
	}
	sigp := "C06:"
	if cacheOn && epn < 4096 {
		sigp = "C06:cache-on-multilevel:"
	}
	st := newStore()
	defer dropStore(st)
	prefix := fmt.Sprintf("c06x%d", c.Index)
	conn := OpenConn("main")
	defer func() { conn.Close() }()
	vt := tname(c, "v")
	nt := "n_" + vt
	colsDecl := "k PRIMARY KEY, a, b"
	ncols := "k PRIMARY KEY, a, b"
	if notNullA {
		colsDecl = "k PRIMARY KEY, a NOT NULL, b"
		ncols = "k PRIMARY KEY, a NOT NULL, b"
	}
	spec := TableSpec{Name: vt, Cols: colsDecl, Store: st.Name, Client: "w", Prefix: prefix, EPN: epn}
	if cacheOn {
		spec.Cache = 64
	}
	if builtin {
		spec.Store = ""
		spec.Prefix = fmt.Sprintf("c06-%d-%d-%d", c.Seed, c.Index, r.Intn(1<<30))
	}
	var prog []string
	fail := func(sig, msg string) {
		tail := prog
		if len(tail) > 60 {
			tail = tail[len(tail)-60:]
		}
		c.Violate(sigp+sig, msg, map[string]interface{}{"create": spec.SQL(), "explicit_write_time": explicitTime, "program_tail": tail})
	}
	if err := conn.Create(spec); err != nil {
		fail("create", "create failed: "+err.Error())
		return
	}
	if err := conn.Exec(fmt.Sprintf("create table %s(%s) without rowid", nt, ncols)); err != nil {
		panic(err)
	}
	classes := []string{"i", "iiirtb", "t", "irtb", "iiiiit"}[r.Intn(5)]
	nkeys := r.Range(20, 120)
	if epn == 16 {
		nkeys = r.Range(100, 260)
	}
	pool := keyPool(r, nkeys, classes)
	// a sorted copy for picking bounds "past the end" etc.
	var recent []interface{}
	pk := func() interface{} {
		if r.Intn(12) == 0 {
			// a key not in the pool
			return keyPool(r, 1, classes)[0]
		}
		if len(recent) > 0 && r.Intn(3) == 0 {
			// the same few keys again and again: delete / re-insert / update sequences on one key
			return recent[r.Intn(len(recent))]
		}
		k := pool[r.Intn(len(pool))]
		recent = append(recent, k)
		if len(recent) > 3 {
			recent = recent[1:]
		}
		return k
	}
	// twin returns a key of the pool in its other numeric representation (INTEGER n <-> REAL n.0)
	hasMin := false
	for _, k := range pool {
		if k == interface{}(int64(math.MinInt64)) {
			hasMin = true
		}
	}
	twin := func() interface{} {
		if hasMin && r.Intn(6) == 0 {
			// the smallest INTEGER is exactly representable as a REAL
			c.Count("twin_operands_of_min_int64", 1)
			return float64(math.MinInt64)
		}
		for tries := 0; tries < 8; tries++ {
			switch x := pool[r.Intn(len(pool))].(type) {
			case int64:
				if f := float64(x); int64(f) == x && f < 9e18 && f > -9e18 {
					return f
				}
			case float64:
				if x == float64(int64(x)) && x < 9e18 && x > -9e18 {
					return int64(x)
				}
			}
		}
		return pk()
	}
	tsec := 0
	inTx := false
	stmtNo := 0
	rangeScans := 0

	// both runs one statement on both tables and compares outcome classes
	holdTime := false
	both := func(s c06stmt) (string, bool) {
		stmtNo++
		if explicitTime && !inTx && !holdTime {
			if r.Intn(4) != 0 { // non-decreasing: sometimes equal to the previous one
				tsec++
			}
			conn.SetWriteTime(tsec + 1)
		}
		qv := strings.ReplaceAll(s.q, "%T", vt)
		qn := strings.ReplaceAll(s.q, "%T", nt)
		prog = append(prog, s.String())
		if !strings.Contains(s.q, "%T") {
			// BEGIN / COMMIT / ROLLBACK act on the connection, i.e. on both tables
			err := conn.Exec(s.q)
			if err != nil {
				fail("txcmd:"+s.q, fmt.Sprintf("%s failed: %v", s.q, err))
				return "error", false
			}
			return "ok", true
		}
		nv, ev := conn.ExecN(qv, s.args...)
		nn, en := conn.ExecN(qn, s.args...)
		cv, cn := errClass(ev), errClass(en)
		if cv != cn {
			fail("outcome:"+cn+"->"+cv, fmt.Sprintf("statement outcome differs: native %s (%v), s3db %s (%v): %s", cn, en, cv, ev, s.String()))
			return cv, false
		}
		if cv == "ok" && nv != nn && !strings.HasPrefix(strings.ToLower(strings.TrimSpace(s.q)), "begin") {
			// changes() is not part of the property; only note it
			c.Count("rows_affected_differs", 1)
		}
		return cv, true
	}
	query := func(q string, ordered bool, args ...interface{}) bool {
		qv := strings.ReplaceAll(q, "%T", vt)
		qn := strings.ReplaceAll(q, "%T", nt)
		rv, ev := conn.Rows(qv, args...)
		rn, en := conn.Rows(qn, args...)
		c.Count("queries_compared", 1)
		desc := c06stmt{q, args}.String()
		if (ev == nil) != (en == nil) {
			prog = append(prog, desc)
			sig := "query-error"
			if strings.Contains(strings.ToLower(q), "desc") {
				sig = "query-error-desc"
			}
			fail(sig, fmt.Sprintf("query outcome differs: native err=%v, s3db err=%v: %s", en, ev, desc))
			return false
		}
		if ev != nil {
			return true
		}
		if !ordered {
			rv, rn = sortedCopy(rv), sortedCopy(rn)
		}
		if d := firstDiff(rn, rv); d != "" {
			prog = append(prog, desc)
			sig := "query-result"
			lq := strings.ToLower(q)
			switch {
			case strings.Contains(lq, "desc"):
				sig = "query-result-desc"
			case strings.Contains(lq, "max("):
				sig = "query-result-max"
			}
			fail(sig, fmt.Sprintf("query result differs (native vs s3db): %s: %s", d, desc))
			return false
		}
		return true
	}
	fullCompare := func() bool {
		return query("select * from %T order by k", true) && query("select count(*), count(a), count(b) from %T", true)
	}
	val := func(tag string) interface{} { return randVal(r, fmt.Sprintf("%s%d", tag, stmtNo)) }
	valA := func() interface{} {
		v := val("a")
		if notNullA && v == nil && r.Intn(4) != 0 {
			return "nn"
		}
		return v
	}
	genWrite := func(singleRowOnly bool) c06stmt {
		x := r.Intn(100)
		switch {
		case x < 40:
			switch r.Intn(4) {
			case 0:
				return c06stmt{"insert into %T(k,a) values (?,?)", []interface{}{pk(), valA()}}
			case 1:
				if !notNullA {
					return c06stmt{"insert into %T(k,b) values (?,?)", []interface{}{pk(), val("b")}}
				}
				fallthrough
			default:
				return c06stmt{"insert into %T values (?,?,?)", []interface{}{pk(), valA(), val("b")}}
			}
		case x < 50 && !singleRowOnly:
			n := r.Range(2, 6)
			q := "insert into %T values "
			var args []interface{}
			for i := 0; i < n; i++ {
				if i > 0 {
					q += ","
				}
				q += "(?,?,?)"
				args = append(args, pk(), valA(), val("b"))
			}
			return c06stmt{q, args}
		case x < 50:
			return c06stmt{"insert into %T values (?,?,?)", []interface{}{pk(), valA(), val("b")}}
		case x < 75:
			switch r.Intn(9) {
			case 6:
				if !singleRowOnly && !notNullA {
					// column expressions: values computed from the row itself
					return c06stmt{"update %T set b = a, a = b where k >= ? and k <= ?", []interface{}{pk(), pk()}}
				}
				fallthrough
			case 7:
				if !singleRowOnly {
					return c06stmt{"update %T set b = typeof(b) || ? || length(b) where k in (?,?,?)", []interface{}{"+", pk(), pk(), pk()}}
				}
				fallthrough
			case 8:
				return c06stmt{"update %T set b = typeof(a) where k = ?", []interface{}{pk()}}
			case 0:
				return c06stmt{"update %T set a=?, b=? where k=?", []interface{}{valA(), val("b"), pk()}}
			case 1:
				if !singleRowOnly {
					lo, hi := pk(), pk()
					return c06stmt{"update %T set b=? where k between ? and ?", []interface{}{val("b"), lo, hi}}
				}
				fallthrough
			case 2:
				if !singleRowOnly {
					return c06stmt{"update %T set b=? where a=?", []interface{}{val("b"), valA()}}
				}
				fallthrough
			case 3:
				return c06stmt{"update %T set b=? where k=?", []interface{}{val("b"), pk()}}
			case 4:
				return c06stmt{"update %T set b=? where k=?", []interface{}{val("b"), twin()}}
			default:
				return c06stmt{"update %T set a=? where k=?", []interface{}{valA(), pk()}}
			}
		default:
			switch r.Intn(10) {
			case 8:
				if !singleRowOnly {
					return c06stmt{"delete from %T where k in (?,?,?,?)", []interface{}{pk(), pk(), pk(), pk()}}
				}
				fallthrough
			case 9:
				if !singleRowOnly {
					return c06stmt{"delete from %T where k > ? and b is null", []interface{}{pk()}}
				}
				fallthrough
			case 0:
				if !singleRowOnly {
					return c06stmt{"delete from %T where k >= ? and k < ?", []interface{}{pk(), pk()}}
				}
				fallthrough
			case 1:
				if !singleRowOnly {
					return c06stmt{"delete from %T where b=? or a=?", []interface{}{val("b"), valA()}}
				}
				fallthrough
			case 7:
				return c06stmt{"delete from %T where k=?", []interface{}{twin()}}
			default:
				return c06stmt{"delete from %T where k=?", []interface{}{pk()}}
			}
		}
	}
	genQuery := func() bool {
		ops := []string{"=", "<", "<=", ">", ">="}
		x := r.Intn(100)
		switch {
		case x < 4:
			// lookups by the other numeric representation of a stored key
			switch r.Intn(3) {
			case 0:
				return query("select * from %T where k = ?", true, twin())
			case 1:
				return query("select * from %T where k in (?,?) order by k", true, twin(), twin())
			default:
				return query("select count(*) from %T where k >= ? and k <= ?", true, twin(), twin())
			}
		case x < 12:
			return query("select * from %T where k = ?", true, pk())
		case x < 40:
			op := ops[1+r.Intn(4)]
			ord := []string{"", " order by k", " order by k asc", " order by k desc"}[r.Intn(4)]
			rangeScans++
			return query("select * from %T where k "+op+" ?"+ord, ord != "", pk())
		case x < 58:
			op1 := ops[r.Intn(5)]
			op2 := ops[r.Intn(5)]
			ord := []string{" order by k", " order by k desc", ""}[r.Intn(3)]
			rangeScans++
			if r.Intn(3) == 0 {
				op3 := ops[r.Intn(5)]
				return query("select k, a from %T where k "+op1+" ? and k "+op2+" ? and k "+op3+" ?"+ord, ord != "", pk(), pk(), pk())
			}
			return query("select k, b from %T where k "+op1+" ? and k "+op2+" ?"+ord, ord != "", pk(), pk())
		case x < 64:
			rangeScans++
			return query("select * from %T where k between ? and ? order by k", true, pk(), pk())
		case x < 70:
			return query("select * from %T where k in (?,?,?) order by k", true, pk(), pk(), pk())
		case x < 76:
			lim := r.Intn(8)
			off := r.Intn(5)
			ord := []string{"k", "k desc"}[r.Intn(2)]
			return query(fmt.Sprintf("select * from %%T order by %s limit %d offset %d", ord, lim, off), true)
		case x < 82:
			return query("select count(*), min(k), max(k), sum(b), total(b) from %T", true)
		case x < 86:
			return query("select a, count(*) from %T group by a order by a", true)
		case x < 90:
			// non-key order, two terms
			return query("select * from %T order by a, k", true) && query("select * from %T order by b desc, k desc", true)
		case x < 93:
			return query("select * from %T order by k desc, a", true)
		case x < 94:
			return query("select max(k) from %T", true) && query("select min(k) from %T", true)
		case x < 96:
			// more shapes: subqueries, self-joins on the key, cross-class bounds, NULL tests, DISTINCT
			switch r.Intn(7) {
			case 0:
				return query("select k from %T where k in (select k from %T where a = ?) order by k", true, valA())
			case 1:
				return query("select x.k, y.b from %T x join %T y on x.k = y.k where x.k > ? order by x.k", true, pk())
			case 2:
				return query("select * from %T where k > ? and k < ? order by k", true, int64(r.Intn(50)), "m")
			case 3:
				return query("select * from %T where k is null or k = ? order by k", true, pk())
			case 4:
				return query("select distinct typeof(k), typeof(a) from %T order by 1, 2", true)
			case 5:
				return query("select k from %T where k >= ? order by k limit 3", true, pk())
			default:
				return query("select count(*) from %T where k not between ? and ?", true, pk(), pk())
			}
		case x < 98:
			// key and non-key predicates mixed, in both orders
			op := ops[r.Intn(5)]
			if r.Bool() {
				return query("select * from %T where a = ? and k "+op+" ? order by k", true, valA(), pk())
			}
			return query("select * from %T where k "+op+" ? and b is not null and a <> ? order by k", true, pk(), valA())
		default:
			return query("select * from %T where a = ? order by k", true, valA())
		}
	}

	steps := r.Range(40, 90)
	if epn == 16 {
		steps = r.Range(120, 200)
	}
	// queries on the empty table first (empty-table scans are demanded)
	if r.Bool() {
		query("select * from %T order by k desc", true)
		query("select max(k), min(k), count(*) from %T", true)
		query("select * from %T where k > ? order by k", true, pk())
	}
	// bulk load so that trees get deep quickly
	if r.Intn(3) != 0 {
		n := r.Range(len(pool)/3, len(pool))
		perm := r.Perm(len(pool))
		both(c06stmt{"begin", nil})
		inTx = true
		for i := 0; i < n; i++ {
			both(c06stmt{"insert into %T values (?,?,?)", []interface{}{pool[perm[i]], valA(), val("b")}})
		}
		both(c06stmt{"commit", nil})
		inTx = false
	}
	maxDepth := 0
	for step := 0; step < steps && c.Res.Status != "violated"; step++ {
		x := r.Intn(100)
		switch {
		case x < 3 && notNullA && !inTx:
			// three statements at one write time: two rows are written, then one UPDATE changes the
			// first and fails NOT NULL on the second - the statement fails as a whole
			k1 := int64(500000 + 2*step)
			both(c06stmt{"insert into %T values (?,?,?)", []interface{}{k1, "p", "q"}})
			holdTime = true
			both(c06stmt{"insert into %T values (?,?,?)", []interface{}{k1 + 1, "p", nil}})
			both(c06stmt{"update %T set a = b where k >= ? and k <= ?", []interface{}{k1, k1 + 1}})
			holdTime = false
			c.Count("failing_multi_row_updates_at_the_rows_write_time", 1)
			fullCompare()
		case x < 45:
			both(genWrite(inTx))
		case x < 80:
			genQuery()
		case x < 86:
			if !inTx {
				both(c06stmt{"begin", nil})
				inTx = true
			} else {
				if r.Intn(4) == 0 {
					both(c06stmt{"rollback", nil})
				} else {
					both(c06stmt{"commit", nil})
				}
				inTx = false
			}
		case x < 90:
			fullCompare()
		case x < 95:
			if inTx {
				continue
			}
			// re-open: drop and re-create on the same prefix
			prog = append(prog, "-- re-open (drop, create)")
			if err := conn.Exec("drop table " + vt); err != nil {
				fail("drop", "drop failed: "+err.Error())
				break
			}
			if !builtin && !cacheOn && r.Bool() {
				// (not with the node cache on: on an emptied table the new value would apply and make a
				// multi-level tree, which is the known finding D19 under another signature)
				// entries_per_node only matters for an empty tree: re-opened with another (or no)
				// value the table behaves the same
				spec.EPN = []int{0, 4096, 64, 2}[r.Intn(4)]
				prog = append(prog, "-- now "+spec.SQL())
				c.Count("reopens_with_other_entries_per_node", 1)
			}
			if err := conn.Create(spec); err != nil {
				fail("reopen", "re-create on the same prefix failed: "+err.Error())
				break
			}
			c.Count("reopens", 1)
			fullCompare()
		default:
			if inTx || builtin {
				continue
			}
			// a second connection opening the same prefix read-only
			c2 := OpenConn("second")
			vt2 := tname(c, "r")
			s2 := spec
			s2.Name, s2.Client, s2.ReadOnly, s2.Cache = vt2, "r", true, 0
			if err := c2.Create(s2); err != nil {
				fail("second-open", "second connection failed to open: "+err.Error())
			} else {
				d2, err := c2.Rows("select * from " + vt2 + " order by k")
				dn, _ := conn.Rows("select * from " + nt + " order by k")
				if err != nil {
					fail("second-scan", "second connection scan failed: "+err.Error())
				} else if d := firstDiff(dn, d2); d != "" {
					fail("second-differs", "a second connection's scan differs from native: "+d)
				}
				c.Count("second_connection_opens", 1)
			}
			c2.Close()
		}
		if !builtin && step%10 == 9 && !inTx {
			// measure tree depth from the bucket
			for _, name := range walk.VersionNames(st.Snapshot(), walk.Base(prefix), "current") {
				if b, _, ok := walk.FindVersion(st.Snapshot(), walk.Base(prefix), name); ok {
					if rt, err := walk.ParseRoot(b); err == nil && int(rt.Height)+1 > maxDepth {
						maxDepth = int(rt.Height) + 1
					}
				}
			}
		}
	}
	if inTx && c.Res.Status != "violated" {
		both(c06stmt{"commit", nil})
	}
	if c.Res.Status != "violated" {
		fullCompare()
	}
	c.Count("statements", int64(stmtNo))
	c.MaxOf("tree_levels", int64(maxDepth))
	if builtin {
		c.Count("cases_builtin_bucket_no_hook", 1)
	}
	if cacheOn {
		c.Count("cases_cache_on", 1)
	}
	if maxDepth >= 2 && rangeScans > 0 {
		c.NonTrivial(fmt.Sprint(epn, variant, prog))
	}
	c.Count("range_scans", int64(rangeScans))
	if c.Index < 6 {
		tail := prog
		if len(tail) > 10 {
			tail = tail[:10]
		}
		sort.Strings(nil)
		c.Res.Sample = map[string]interface{}{"create": spec.SQL(), "classes": classes, "first_statements": tail, "statements": stmtNo}
	}
}
