package main

import (
	"fmt"
	"strings"
	"time"

	"github.com/jrhy/s3db"

	"verifh/fs3"
	"verifh/walk"
)

func init() {
	register(&Check{
		ID:    "C20",
		Level: "exploration",
		Rule: "a grammar produces CREATE VIRTUAL TABLE ... USING s3db argument lists in three classes, 24 per case. MUST-ACCEPT: 1-6 columns with bare, mixed-case, double-quoted, single-quoted, spaced and keyword names, optional type from the five the parser knows, at most one single-column key (column constraint or PRIMARY KEY(c) clause, quoted or not), NOT NULL, documented options in any order. " +
			"MUST-REJECT: unknown or duplicated option, missing or empty columns, composite key, two keys, key naming no column, duplicate column, UNIQUE, DEFAULT, non-numeric entries_per_node, s3_endpoint without bucket. EITHER (only consistency is checked): trailing comma, readonly=1, non-positive sizes, types outside the five, upper-case option names. " +
			"For an accepted list pragma_table_info must show the specified names, order, key and NOT NULL flags; a NULL in a NOT NULL column must be refused; a row inserted by column name must come back under the same names; for a rejected list the table must not be registered (s3db.GetTable nil, a valid CREATE of the same name succeeds) and the request log must hold no PUT. One slice runs on the built-in bucket with no hook on the path. " +
			"non-trivial = the case exercised all three classes; distinct = hash of the argument lists",
		Flavours: []string{"plain"},
		Cases: func(tier string) int {
			if tier == "thorough" {
				return 800
			}
			return 96
		},
		MinNT: func(tier string) int {
			if tier == "thorough" {
				return 600
			}
			return 60
		},
		Run:             runC20,
		HangIsViolation: true,
		CaseTimeout:     90 * time.Second,
		Assumptions: []string{
			"the expectation is derived from the README's argument reference and the usage text of the module",
			"tables without a PRIMARY KEY are accepted by the grammar; their row identity column is hidden and not part of the comparison",
		},
	})
}

type c20col struct {
	Name    string // logical name
	Spelled string // as written in the spec
	Type    string
	PK      bool
	NotNull bool
}

func c20Name(r *Rng, i int) (name, spelled string) {
	bare := []string{"a", "b1", "col_x", "MixedCase", "UPPER", "z9", "name", "email", "k", "_under"}
	spaced := []string{"my col", "two words", "with-dash", "sel ect"}
	keywords := []string{"select", "order", "group", "table", "index", "where", "from", "key", "primary"}
	switch r.Intn(9) {
	case 8:
		// (the grammar has no escape inside double-quoted names: "[^"]*")
		// a single quote inside a single-quoted name is written twice - and each of those once
		// more inside the single-quoted columns='...' value
		n := fmt.Sprintf("it's%d", i)
		return n, "''" + strings.ReplaceAll(n, "'", "''''") + "''"
	case 0, 1, 2, 3:
		n := fmt.Sprintf("%s%d", bare[r.Intn(len(bare))], i)
		return n, n
	case 4:
		n := fmt.Sprintf("%s %d", spaced[r.Intn(len(spaced))], i)
		return n, `"` + n + `"`
	case 5:
		n := keywords[r.Intn(len(keywords))]
		if i > 0 {
			n = fmt.Sprintf("%s%d", n, i) // still a plain identifier; first one is the bare keyword
		}
		return n, `"` + n + `"`
	case 6:
		n := fmt.Sprintf("q%s%d", bare[r.Intn(len(bare))], i)
		return n, `"` + n + `"`
	default:
		n := fmt.Sprintf("s%s%d", bare[r.Intn(len(bare))], i)
		// single quotes inside the single-quoted columns='...' value are doubled
		return n, `''` + n + `''`
	}
}

func c20Valid(r *Rng) ([]c20col, string) {
	n := r.Range(1, 6)
	cols := make([]c20col, n)
	types := []string{"", "", "text", "varchar", "integer", "number", "real", "TEXT", "Integer"}
	pk := -1
	if r.Intn(5) != 0 {
		pk = r.Intn(n)
	}
	pkClause := pk >= 0 && r.Intn(3) == 0
	var parts []string
	for i := range cols {
		nm, sp := c20Name(r, i)
		cols[i] = c20col{Name: nm, Spelled: sp, Type: types[r.Intn(len(types))]}
		s := sp
		if cols[i].Type != "" {
			s += " " + cols[i].Type
		}
		var cons []string
		if i == pk {
			cols[i].PK = true
			if !pkClause {
				cons = append(cons, []string{"primary key", "PRIMARY KEY", "Primary  Key"}[r.Intn(3)])
			}
		}
		if r.Intn(4) == 0 && i != pk {
			cols[i].NotNull = true
			cons = append(cons, []string{"not null", "NOT NULL"}[r.Intn(2)])
		}
		if len(cons) == 2 && r.Bool() {
			cons[0], cons[1] = cons[1], cons[0]
		}
		if len(cons) > 0 {
			s += " " + strings.Join(cons, " ")
		}
		parts = append(parts, s)
	}
	if pkClause {
		clause := "primary key(" + cols[pk].Spelled + ")"
		if r.Bool() {
			clause = "PRIMARY KEY ( " + cols[pk].Spelled + " )"
		}
		pos := r.Intn(len(parts) + 1)
		if pos < pk+1 {
			pos = len(parts) // after the column it names, to stay on the safe side of the grammar
		}
		parts = append(parts[:pos], append([]string{clause}, parts[pos:]...)...)
	}
	sep := []string{", ", ",", " , "}[r.Intn(3)]
	return cols, strings.Join(parts, sep)
}

func runC20(c *Case) {
	r := c.R
	builtin := c.Index%6 == 5
	st := newStore()
	defer dropStore(st)
	conn := OpenConn("w")
	defer conn.Close()
	var canon strings.Builder
	classes := map[string]bool{}
	storageOpts := func(prefix string) []string {
		if builtin {
			return []string{fmt.Sprintf("s3_prefix='c20-%d-%d-%s'", c.Seed, c.Index, prefix)}
		}
		return []string{"s3_bucket='b'", "s3_endpoint='" + fs3.Endpoint(st.Name, "w") + "'", "s3_prefix='" + prefix + "'"}
	}
	putsSince := func(n0 int) int {
		n := 0
		for _, ev := range st.LogSince(n0) {
			if ev.Op == fs3.OpPut || ev.Op == fs3.OpDel {
				n++
			}
		}
		return n
	}
	create := func(t string, args []string) (string, error) {
		q := fmt.Sprintf("create virtual table %s using s3db (%s)", t, strings.Join(args, ", "))
		return q, conn.Exec(q)
	}
	// half of the hooked cases keep a prefix with two unmerged versions: opening it read-write
	// commits their merge, so a CREATE that is going to be rejected must not get that far
	fork := false
	if !builtin && c.Index%2 == 0 {
		f1, f2 := tname(c, "f1"), tname(c, "f2")
		e1 := conn.Create(TableSpec{Name: f1, Cols: "k PRIMARY KEY, v", Store: st.Name, Client: "f1", Prefix: "fork"})
		e2 := conn.Create(TableSpec{Name: f2, Cols: "k PRIMARY KEY, v", Store: st.Name, Client: "f2", Prefix: "fork"})
		if e1 == nil && e2 == nil {
			e1 = conn.Exec("insert into " + f1 + " values (1,'one')")
			e2 = conn.Exec("insert into " + f2 + " values (2,'two')")
		}
		conn.Exec("drop table " + f1)
		conn.Exec("drop table " + f2)
		if e1 != nil || e2 != nil {
			c.Violate("C20:setup", fmt.Sprintf("fork prefix: %v %v", e1, e2), nil)
			return
		}
		fork = len(walk.VersionNames(st.Snapshot(), walk.Base("fork"), "current")) == 2
	}
	for i := 0; i < 24 && c.Res.Status != "violated"; i++ {
		t := tname(c, "d")
		cols, spec := c20Valid(r)
		opts := storageOpts(fmt.Sprintf("p%d", i))
		extra := []string{}
		if r.Intn(3) == 0 {
			extra = append(extra, fmt.Sprintf("entries_per_node=%d", []int{2, 16, 4096}[r.Intn(3)]))
		}
		if r.Intn(4) == 0 {
			extra = append(extra, "node_cache_entries=10")
		}
		args := append([]string{"columns='" + spec + "'"}, append(opts, extra...)...)
		class := []string{"accept", "accept", "reject", "either"}[r.Intn(4)]
		why := ""
		switch class {
		case "reject":
			switch r.Intn(15) {
			case 14:
				args[0] = "columns='" + []string{"a primary key, b, A", "k primary key, Val, vAL", "x, X"}[r.Intn(3)] + "'"
				why = "duplicate column differing in case"
			case 13:
				args[0] = "columns='" + []string{"_rowid_, a", "a, _ROWID_", "a, b, \"_rowid_\""}[r.Intn(3)] + "'"
				why = "column clashing with the hidden key of a table without PRIMARY KEY"
			case 0:
				args = append(args, "bogus_option=1")
				why = "unknown option"
			case 1:
				dup := args[r.Intn(len(args))]
				if r.Bool() {
					// the same option again with another value
					switch name := strings.SplitN(dup, "=", 2)[0]; name {
					case "columns":
						dup = "columns='x primary key, y'"
					case "entries_per_node":
						dup = "entries_per_node=8"
					case "node_cache_entries":
						dup = "node_cache_entries=3"
					default:
						dup = name + "='other'"
					}
				}
				args = append(args, dup)
				why = "duplicated option"
			case 2:
				args = args[1:]
				why = "missing columns"
			case 3:
				args[0] = "columns=''"
				why = "empty columns"
			case 4:
				args[0] = "columns='a, b, primary key(a, b)'"
				why = "composite key"
			case 5:
				args[0] = "columns='a primary key, b primary key'"
				why = "two keys"
			case 6:
				args[0] = "columns='a, b, primary key(c)'"
				why = "key naming no column"
			case 7:
				args[0] = "columns='a primary key, b, a'"
				why = "duplicate column"
			case 8:
				args[0] = "columns='" + []string{"a primary key, b unique", "a unique, k primary key", "a unique, k, primary key(k)", "a unique", "a, b unique", "k primary key unique, a", "a UNIQUE, b, k PRIMARY KEY"}[r.Intn(7)] + "'"
				why = "UNIQUE"
			case 9:
				args[0] = "columns='a primary key, b default 5'"
				why = "DEFAULT"
			case 10:
				args = append(args, "entries_per_node=lots")
				why = "non-numeric entries_per_node"
			case 11:
				args = []string{args[0], "s3_endpoint='http://127.0.0.1:1'"}
				why = "s3_endpoint without bucket"
			default:
				args[0] = "columns='a primary key, primary key(a)'"
				why = "two keys (constraint and clause)"
			}
		case "either":
			switch r.Intn(5) {
			case 0:
				args[0] = "columns='" + spec + ",'"
				why = "trailing comma"
			case 1:
				args = append(args, "readonly=1")
				why = "readonly=1"
			case 2:
				args = append(args, []string{"entries_per_node=0", "entries_per_node=-4", "node_cache_entries=-1"}[r.Intn(3)])
				why = "non-positive size"
			case 3:
				args[0] = "columns='a primary key, b " + []string{"int", "blob", "numeric", "datetime", "float"}[r.Intn(5)] + "'"
				why = "type outside the five"
			default:
				args[0] = "COLUMNS='" + spec + "'"
				why = "upper-case option name"
			}
		default:
			// permute the options
			p := r.Perm(len(args))
			na := make([]string, len(args))
			for j, k := range p {
				na[j] = args[k]
			}
			args = na
		}
		if class == "reject" && fork && r.Bool() {
			for j, a := range args {
				if strings.HasPrefix(a, "s3_prefix=") {
					args[j] = "s3_prefix='fork'"
				}
			}
			c.Count("rejects_on_prefix_with_unmerged_versions", 1)
		}
		n0 := st.LogLen()
		q, err := create(t, args)
		fmt.Fprintf(&canon, "%s;", strings.Replace(q, t, "T", 1))
		classes[class] = true
		c.Count("argument_lists_"+class, 1)
		detail := map[string]interface{}{"statement": q, "class": class, "why": why}
		fail := func(sig, msg string) { c.Violate("C20:"+sig, msg, detail) }
		checkRejected := func() {
			if s3db.GetTable(t) != nil {
				fail("rejected-but-registered", fmt.Sprintf("CREATE failed (%v) but the table is still registered", err))
				return
			}
			if !builtin {
				if n := putsSince(n0); n > 0 {
					fail("rejected-but-wrote", fmt.Sprintf("CREATE failed (%v) but it issued %d PUT/DELETE requests", err, n))
					return
				}
			}
			// the name is free again
			if _, err2 := create(t, append([]string{"columns='k primary key, v'"}, storageOpts(fmt.Sprintf("p%dretry", i))...)); err2 != nil {
				sig := "name-not-free-after-reject"
				if strings.Contains(err2.Error(), "already exists") {
					sig = "rejected-but-registered"
				}
				fail(sig, fmt.Sprintf("after the failed CREATE (%v) a valid CREATE of the same name fails: %v", err, err2))
				return
			}
			conn.Exec("drop table " + t)
		}
		switch class {
		case "reject":
			if err == nil {
				fail("accepted-invalid:"+strings.ReplaceAll(why, " ", "-"), "an invalid argument list ("+why+") was accepted")
				conn.Exec("drop table " + t)
				continue
			}
			checkRejected()
			continue
		case "either":
			if err != nil {
				checkRejected()
				continue
			}
			c.Count("either_accepted", 1)
			if why != "trailing comma" && why != "upper-case option name" {
				conn.Exec("drop table " + t)
				continue
			}
		default:
			if err != nil {
				kind := "other"
				for _, col := range cols {
					switch {
					case strings.ContainsAny(col.Name, `'"`):
						kind = "quote-inside-quoted-name"
					case strings.Contains(col.Spelled, " "):
						kind = "quoted-name-with-space"
					case strings.HasPrefix(col.Spelled, `"`) && kind == "other":
						kind = "quoted-name"
					case strings.HasPrefix(col.Spelled, `''`) && kind == "other":
						kind = "single-quoted-name"
					}
				}
				fail("rejected-valid:"+kind, fmt.Sprintf("a valid argument list was rejected: %v", err))
				// a failed declare must not leave the table behind either
				checkRejected()
				continue
			}
		}
		// accepted: the declared table must match the specification
		rows, err := conn.Query("select name, pk, \"notnull\" from pragma_table_info('" + t + "') order by cid")
		if err != nil {
			fail("table-info-error", err.Error())
			continue
		}
		var got, want []string
		for _, rw := range rows {
			if rw[0] == "t:_rowid_" {
				continue
			}
			got = append(got, strings.Join(rw, "|"))
		}
		for _, col := range cols {
			pk, nn := 0, 0
			if col.PK {
				pk = 1
				nn = 1 // WITHOUT ROWID tables report their key as NOT NULL
			}
			if col.NotNull {
				nn = 1
			}
			want = append(want, fmt.Sprintf("t:%s|i:%d|i:%d", col.Name, pk, nn))
		}
		c.Count("declarations_compared", 1)
		if d := firstDiff(want, got); d != "" {
			// pk columns: SQLite may or may not flag notnull; compare without it for the key
			relaxed := true
			if len(want) == len(got) {
				for j := range want {
					w, g := strings.Split(want[j], "|"), strings.Split(got[j], "|")
					if w[0] != g[0] || w[1] != g[1] || (w[1] == "i:0" && w[2] != g[2]) {
						relaxed = false
					}
				}
			} else {
				relaxed = false
			}
			if !relaxed {
				kind := "other"
				for _, col := range cols {
					if strings.Contains(col.Name, " ") {
						kind = "name-with-space"
					}
				}
				fail("declared-differs:"+kind, fmt.Sprintf("pragma_table_info differs from the specification (spec vs declared): %s", d))
				conn.Exec("drop table " + t)
				continue
			}
		}
		// a row inserted by column name comes back under the same names
		var names, qs, sel []string
		var vals []interface{}
		for j, col := range cols {
			qn := `"` + col.Name + `"`
			names = append(names, qn)
			qs = append(qs, "?")
			sel = append(sel, qn)
			vals = append(vals, fmt.Sprintf("v%d", j))
		}
		if err := conn.Exec(fmt.Sprintf("insert into %s(%s) values (%s)", t, strings.Join(names, ","), strings.Join(qs, ",")), vals...); err != nil {
			fail("insert-error", "insert by column names failed: "+err.Error())
		} else {
			rws, err := conn.Rows(fmt.Sprintf("select %s from %s", strings.Join(sel, ","), t))
			var ws []string
			for j := range cols {
				ws = append(ws, fmt.Sprintf("t:v%d", j))
			}
			if err != nil || len(rws) != 1 || rws[0] != strings.Join(ws, "|") {
				sub := "with-key"
				hasPK := false
				for _, col := range cols {
					if col.PK {
						hasPK = true
					}
				}
				if !hasPK {
					sub = "no-primary-key"
				}
				fail("row-under-wrong-columns:"+sub, fmt.Sprintf("inserted %v by column name, read back %v (err %v)", ws, rws, err))
			}
			c.Count("rows_round_tripped", 1)
		}
		// NOT NULL behaviour
		for j, col := range cols {
			if !col.NotNull {
				continue
			}
			vals2 := append([]interface{}{}, vals...)
			for k := range vals2 {
				vals2[k] = fmt.Sprintf("w%d", k)
			}
			vals2[j] = nil
			err := conn.Exec(fmt.Sprintf("insert into %s(%s) values (%s)", t, strings.Join(names, ","), strings.Join(qs, ",")), vals2...)
			c.Count("not_null_probes", 1)
			if err == nil {
				fail("not-null-not-enforced", fmt.Sprintf("NULL was accepted into NOT NULL column %q", col.Name))
			}
		}
		conn.Exec("drop table " + t)
	}
	// a name in use by another connection of the process is refused, and nothing blocks afterwards
	{
		other := OpenConn("other")
		t1 := tname(c, "dup")
		ok1 := func() bool {
			_, err := create(t1, append([]string{"columns='k primary key, v'"}, storageOpts("dup1")...))
			return err == nil
		}()
		if ok1 {
			q := fmt.Sprintf("create virtual table %s using s3db (%s)", t1, strings.Join(append([]string{"columns='k primary key, v'"}, storageOpts("dup2")...), ", "))
			if err := other.Exec(q); err == nil {
				c.Violate("C20:duplicate-name-accepted", "a second connection created an s3db table under a name already registered in the process", nil)
			}
			c.Count("cross_connection_duplicates", 1)
			// both connections still work
			t2 := tname(c, "dup")
			if _, err := create(t2, append([]string{"columns='k primary key, v'"}, storageOpts("dup3")...)); err != nil {
				c.Violate("C20:create-after-refused-duplicate", "after a refused duplicate name, a valid CREATE fails: "+err.Error(), nil)
			} else {
				conn.Exec("drop table " + t2)
			}
			conn.Exec("drop table " + t1)
		}
		other.Close()
	}
	if len(classes) == 3 {
		c.NonTrivial(canon.String())
	}
	if builtin {
		c.Count("cases_builtin_bucket_no_hook", 1)
	}
	if c.Index < 4 {
		s := canon.String()
		c.Res.Sample = map[string]interface{}{"statements": strings.Split(s[:min(len(s), 900)], ";")}
	}
}
