package main

import (
	"fmt"
	"math"
	"sort"
	"strings"
	"sync"
	"time"

	"verifh/fs3"
	"verifh/walk"
)

// virtual clock for hook H3: version creation stamps are baseTime + vclock seconds
var (
	vclockMu sync.Mutex
	vclocks  = map[string]int{} // store name -> seconds
)

func vclockInstall() {
	setClock(func(ep string, when time.Time) time.Time {
		st, _, ok := fs3.ParseEndpoint(ep)
		if !ok {
			return when
		}
		vclockMu.Lock()
		v, has := vclocks[st]
		vclockMu.Unlock()
		if !has {
			return when
		}
		return baseTime.Add(time.Duration(v) * time.Second)
	})
}

func vclockSet(store string, sec int) {
	vclockMu.Lock()
	vclocks[store] = sec
	vclockMu.Unlock()
}

func vclockDrop(store string) {
	vclockMu.Lock()
	delete(vclocks, store)
	vclockMu.Unlock()
}

func init() {
	vacRule := "random histories of 1-3 writers whose version creation stamps come from a virtual clock (hook H3) and whose row write times share that clock: insert-then-delete, update-and-revert, delete-all, re-insert, merges of forks, an earlier vacuum; all writers then synchronise and one of them runs s3db_vacuum with a cutoff placed before everything / exactly at a version's stamp / between two stamps / at the newest stamp / after everything (and likewise relative to the row delete times). "
	register(&Check{
		ID:    "C09",
		Level: "exploration",
		Rule: vacRule + "Monitors: rows through the vacuuming connection, a fresh connection and every earlier version created at or after the cutoff (re-read through s3db_changes(from='[]') and the Go API) must equal what was recorded; every version object still listed under root/ after the vacuum must reach only existing, decodable node objects (independent bucket walk); later writes and reads must succeed; for one case in three the vacuum is re-run from the pre-state with a crash after EVERY mutating request and a recovery open is checked the same way. " +
			"non-trivial = the vacuum deleted at least one object while an older version shared node objects with the current one; distinct = hash of (history, cutoff)",
		Flavours: []string{"plain"},
		Cases: func(tier string) int {
			if tier == "thorough" {
				return 2000
			}
			return 240
		},
		MinNT: func(tier string) int {
			if tier == "thorough" {
				return 300
			}
			return 25
		},
		Run: func(c *Case) { runVacuum(c, "C09") },
		Assumptions: []string{
			"creation time of a version = the stamp recorded in its version object (the handle's last open/refresh), see DESIGN N1",
			"the vacuuming handle has merged every committed version (vacuuming next to unmerged forks older than the cutoff is documented as unsafe and is not generated)",
			"crash points are exhaustive per swept case, not over cases",
		},
	})
	register(&Check{
		ID:    "C10",
		Level: "exploration",
		Rule: vacRule + "Monitors, after a vacuum that returned no error: every key whose row was deleted strictly before the cutoff is gone from the decoded current tree while rows deleted at or after it keep their marker with the same delete time; the set of version and node objects removed equals the reference retention rule evaluated on the recorded DAG including the version the vacuum itself commits (a version is reclaimed iff it has successors and all of them were created not after the cutoff; a node iff it is reachable only from reclaimed versions); a second identical vacuum leaves the bucket listing (names and hashes) unchanged; a late merge of a version holding an older live copy does not resurrect a row whose marker was kept. " +
			"non-trivial = at least one marker purged and one kept, or at least one version reclaimed and one retained; distinct = hash of (history, cutoff)",
		Flavours: []string{"plain"},
		Cases: func(tier string) int {
			if tier == "thorough" {
				return 2000
			}
			return 300
		},
		MinNT: func(tier string) int {
			if tier == "thorough" {
				return 500
			}
			return 25
		},
		Run: func(c *Case) { runVacuum(c, "C10") },
		Assumptions: []string{
			"creation time of a version = the stamp recorded in its version object, see DESIGN N1",
			"removal of garbage node objects that no version ever referenced is not demanded",
		},
	})
}

type vacVersion struct {
	Name    string
	Created int64 // unix nanos of cr
	Parents []string
	Where   string
}

func vacGraph(snap fs3.Snapshot, base string) map[string]*vacVersion {
	g := map[string]*vacVersion{}
	for _, wh := range []string{"merged", "current"} {
		for _, n := range walk.VersionNames(snap, base, wh) {
			rt, err := walk.ParseRoot(snap[base+"root/"+wh+"/"+n])
			if err != nil {
				continue
			}
			v := &vacVersion{Name: n, Parents: rt.Parents, Where: wh}
			if rt.Created != nil {
				v.Created = rt.Created.UnixNano()
			}
			g[n] = v
		}
	}
	return g
}

// retentionRule evaluates the reference rule on the version graph reachable
// from the given current versions: a version is reclaimed iff it has
// successors and every one of them was created strictly before the cutoff
// (so every version created at or after the cutoff, and everything it needs,
// stays). It returns the reachable set and the expected-gone subset.
func retentionRule(gAll map[string]*vacVersion, current []string, cutNanos int64) (reach, expectGone map[string]bool) {
	reach = map[string]bool{}
	var visit func(n string)
	visit = func(n string) {
		if reach[n] {
			return
		}
		v, ok := gAll[n]
		if !ok {
			return
		}
		reach[n] = true
		for _, p := range v.Parents {
			visit(p)
		}
	}
	for _, n := range current {
		visit(n)
	}
	children := map[string][]*vacVersion{}
	for n := range reach {
		for _, p := range gAll[n].Parents {
			children[p] = append(children[p], gAll[n])
		}
	}
	expectGone = map[string]bool{}
	for n := range reach {
		ch := children[n]
		if len(ch) == 0 {
			continue
		}
		all := true
		for _, cv := range ch {
			if cv.Created >= cutNanos {
				all = false
			}
		}
		if all {
			expectGone[n] = true
		}
	}
	return reach, expectGone
}

func runVacuum(c *Case, id string) {
	vclockInstall()
	r := c.R
	nw := r.Range(1, 3)
	epn := []int{4096, 2, 3, 4}[c.Index%4]
	nkeys := r.Range(3, 24)
	w, err := newWorld(c, 0, epn)
	defer w.close()
	defer vclockDrop(w.st.Name)
	if c.Index%8 == 4 {
		// single-node trees (entries_per_node 4096) with the writers' node cache on
		w.cache = 64
		c.Count("cases_with_node_cache", 1)
	}
	// half of the cases let the statements' write times lag far behind the version clock, so that
	// cutoffs can purge delete markers while every version is still retained
	lag := 0
	vclock := 100
	if c.Index%2 == 1 {
		lag = 10000
		vclock = 20000
	}
	tick := func() { vclock += r.Range(1, 6); vclockSet(w.st.Name, vclock) }
	vclockSet(w.st.Name, vclock)
	// openStamp[j]: the version clock when writer j last opened or refreshed its table. A
	// version that j commits afterwards was created at or after that time: it may not carry an
	// older creation time, or a cutoff in between would reclaim a version created after it.
	openStamp := make([]int, nw)
	for i := 0; i < nw; i++ {
		if _, err = w.addWriter(); err != nil {
			c.Violate(id+":create", err.Error(), nil)
			return
		}
		openStamp[i] = vclock
	}
	h := &vhistory{w: w}
	base := walk.Base(w.prefix)
	cols := hcols
	fail := func(sig, msg string) { c.Violate(id+":"+sig, msg, w.log) }
	is09 := id == "C09"
	refresh := func(j int) error {
		err := w.refresh(j)
		openStamp[j] = vclock
		return err
	}
	seenVer := map[string]bool{}
	// noteVersions looks at the version objects that appeared since the last call; with
	// committers given, each of them was committed by one of those writers
	noteVersions := func(committers ...int) {
		for n, v := range vacGraph(w.st.Snapshot(), base) {
			if seenVer[n] {
				continue
			}
			seenVer[n] = true
			if len(committers) == 0 || c.Res.Status == "violated" {
				continue
			}
			oldest := openStamp[committers[0]]
			for _, j := range committers {
				if openStamp[j] < oldest {
					oldest = openStamp[j]
				}
			}
			c.Count("version_stamps_checked", 1)
			if v.Created < tnanos(oldest) {
				fail("version-stamped-before-its-handle-opened", fmt.Sprintf("version %s, committed by a connection that opened or refreshed the table at %s, records the creation time %s: a vacuum with a cutoff in between treats it as older than the cutoff",
					n, tstr(oldest), time.Unix(0, v.Created).UTC().Format("2006-01-02 15:04:05")))
			}
		}
	}

	// ---------------------------------------------------------------- phase 1
	steps := r.Range(8, 30)
	stmt := func(wi int, kind string, key int, colsv map[string]string) bool {
		tick()
		s := HStmt{W: wi, Kind: kind, Key: key, T: vclock - lag, Cols: colsv}
		noteVersions()
		if _, err := w.exec(s); err != nil {
			fail("statement-error", err.Error())
			return false
		}
		noteVersions(wi)
		return c.Res.Status != "violated"
	}
	for i := 0; i < steps && c.Res.Status != "violated"; i++ {
		wi := r.Intn(nw)
		k := 1 + r.Intn(nkeys)
		tag := fmt.Sprintf("t:w%ds%d", wi, i)
		switch x := r.Intn(100); {
		case x < 30:
			stmt(wi, "ins", k, map[string]string{"a": tag})
		case x < 45:
			stmt(wi, "upd", k, map[string]string{"b": tag})
		case x < 60:
			stmt(wi, "del", k, nil)
		case x < 67: // insert then delete: the table returns to an earlier content
			k2 := 100 + i
			if stmt(wi, "ins", k2, map[string]string{"a": tag}) {
				stmt(wi, "del", k2, nil)
			}
		case x < 71: // update and revert
			if stmt(wi, "upd", k, map[string]string{"c": tag}) {
				stmt(wi, "upd", k, map[string]string{"c": "NULL"})
			}
		case x < 78 && nw >= 2: // a delete on one writer, a later update of the same row on another that has not seen it
			wj := (wi + 1 + r.Intn(nw-1)) % nw
			if stmt(wi, "del", k, nil) {
				stmt(wj, "upd", k, map[string]string{"b": tag + "late"})
			}
		case x < 81: // delete everything
			for kk := 1; kk <= nkeys && c.Res.Status != "violated"; kk += r.Range(1, 3) {
				stmt(wi, "del", kk, nil)
			}
		case x < 92:
			tick()
			if err := refresh(wi); err != nil {
				fail("refresh-error", err.Error())
				return
			}
		default:
			// an earlier vacuum, on a synchronised writer, with an old cutoff
			tick()
			for j := 0; j < nw; j++ {
				refresh(j)
			}
			tick()
			refresh(wi)
			cut := vclock - r.Range(20, 80)
			res, err := w.ws[wi].conn.Rows("select * from s3db_vacuum('"+w.ws[wi].table+"', ?)", tstr(cut))
			w.logf("w%d EARLIER VACUUM cutoff @%d -> %v %v", wi, cut, res, err)
			for j := 0; j < nw; j++ {
				tick()
				refresh(j)
			}
		}
		if c.Res.Status == "violated" {
			return
		}
		noteVersions()
		if _, err := h.record(c, i, wi); err != nil {
			fail("record-error", err.Error())
			return
		}
	}
	if c.Res.Status == "violated" {
		return
	}
	// ---------------------------------------------------------------- phase 2: synchronise
	for round := 0; round < 2; round++ {
		for j := 0; j < nw; j++ {
			tick()
			if err := refresh(j); err != nil {
				fail("refresh-error", err.Error())
				return
			}
		}
	}
	tick()
	A := w.ws[0]
	if err := refresh(0); err != nil {
		fail("refresh-error", err.Error())
		return
	}
	syncStamp := vclock
	// A deletes a few rows after the synchronisation point
	lateDeleted := map[int]int{} // key -> delete time
	if r.Bool() {
		for kk := 1; kk <= nkeys; kk++ {
			if r.Intn(4) == 0 {
				tick()
				s, err := w.exec(HStmt{W: 0, Kind: "del", Key: kk, T: vclock - lag})
				if err == nil && s.Accepted {
					lateDeleted[kk] = vclock - lag
				}
			}
		}
	}
	h.record(c, steps, 0)
	pre := w.st.Snapshot()
	g := vacGraph(pre, base)
	// cutoff candidates from the recorded stamps and delete times
	var stamps []int
	seenSt := map[int]bool{}
	for _, v := range g {
		s := int(time.Unix(0, v.Created).Sub(baseTime) / time.Second)
		if !seenSt[s] {
			seenSt[s] = true
			stamps = append(stamps, s)
		}
	}
	preNames := walk.VersionNames(pre, base, "current")
	if len(preNames) == 0 {
		// an earlier vacuum removed the (empty) current version: nothing to vacuum
		c.Count("cases_without_current_version", 1)
		return
	}
	if len(preNames) != 1 {
		fail("setup", fmt.Sprintf("expected one current version after synchronisation, have %v", preNames))
		return
	}
	preWalk := walk.Walk(pre, base, preNames[0])
	for i := range preWalk.Entries {
		e := &preWalk.Entries[i]
		if e.Row != nil && e.Row.Deleted {
			s := int(time.Unix(0, e.DeleteTime()).Sub(baseTime) / time.Second)
			if !seenSt[s] {
				seenSt[s] = true
				stamps = append(stamps, s)
			}
		}
	}
	sort.Ints(stamps)
	var cutoff int
	cutKind := ""
	switch r.Intn(6) {
	case 0:
		cutoff, cutKind = stamps[0]-10, "before-everything"
	case 1:
		cutoff, cutKind = stamps[r.Intn(len(stamps))], "exactly-at-a-stamp"
	case 2:
		i := r.Intn(len(stamps))
		cutoff, cutKind = stamps[i]+1, "just-after-a-stamp"
		if i+1 < len(stamps) && stamps[i+1] == cutoff {
			cutKind = "exactly-at-a-stamp"
		}
	case 3:
		cutoff, cutKind = stamps[len(stamps)-1], "at-the-newest-stamp"
	case 4:
		cutoff, cutKind = vclock+100, "after-everything"
	default:
		cutoff, cutKind = 365*24*3600*20, "far-future"
		if r.Bool() {
			// the year 2300: later than any time an int64 of nanoseconds since 1970 can hold
			cutoff, cutKind = 8836128000, "beyond-the-year-2262"
		}
	}
	// a marker whose row was updated (by a writer that had not seen the delete) after it was deleted:
	// the delete time, not the row's last modification, decides
	{
		var cands []int
		for i := range preWalk.Entries {
			e := &preWalk.Entries[i]
			if e.Row != nil && e.Row.Deleted && e.DeleteTime()+int64(time.Second) <= e.Mod {
				cands = append(cands, int(time.Unix(0, e.DeleteTime()).Sub(baseTime)/time.Second))
			}
		}
		c.Count("markers_with_later_update", int64(len(cands)))
		if len(cands) > 0 && r.Intn(3) == 0 {
			cutoff, cutKind = cands[r.Intn(len(cands))]+1, "between-a-delete-and-a-later-update-of-the-row"
		}
	}
	c.Distinct("cutoff_kinds", cutKind)
	cutNanos := tnanos(cutoff)
	if cutKind == "beyond-the-year-2262" {
		cutNanos = math.MaxInt64
	}
	preDump, err := A.conn.Dump(A.table)
	if err != nil {
		fail("dump-error", err.Error())
		return
	}
	// ---------------------------------------------------------------- phase 3: vacuum
	tick()
	n0 := w.st.LogLen()
	res, err := A.conn.Rows("select vacuum_error from s3db_vacuum('"+A.table+"', ?)", tstr(cutoff))
	w.logf("w0 VACUUM cutoff @%d (%s) -> %v %v", cutoff, cutKind, res, err)
	c.Count("vacuums", 1)
	if err != nil || len(res) != 1 || res[0] != "NULL" {
		fail("vacuum-error", fmt.Sprintf("s3db_vacuum(cutoff %s) reported %v %v", tstr(cutoff), res, err))
		return
	}
	vacEvents := w.st.LogSince(n0)
	deletedObjs := 0
	muts := 0
	for _, ev := range vacEvents {
		if ev.Op == fs3.OpDel {
			deletedObjs++
		}
		if ev.Op == fs3.OpDel || ev.Op == fs3.OpPut {
			muts++
		}
	}
	c.Count("objects_deleted_by_vacuum", int64(deletedObjs))
	post := w.st.Snapshot()

	// skipAlsoCurrent: a superseded version whose retirement request failed stays listed under
	// root/current; a vacuum that carries on reclaims its nodes like those of any superseded
	// version (opens skip such a version); it is not a retained version either
	skipAlsoCurrent := false
	retainedOK := func(snap fs3.Snapshot, where string, skip map[string]bool) bool {
		ok := true
		for _, wh := range []string{"current", "merged"} {
			for _, n := range walk.VersionNames(snap, base, wh) {
				if skip[n] && (wh == "merged" || skipAlsoCurrent) {
					continue
				}
				v := walk.Walk(snap, base, n)
				c.Count("retained_versions_walked", 1)
				for _, p := range v.Problems {
					cls := p
					if i := strings.Index(p, ":"); i > 0 {
						cls = p[:i]
					}
					loc := "merged"
					if wh == "current" {
						loc = "current"
					}
					fail("retained-version-broken:"+loc+":"+cls, fmt.Sprintf("%s: version %s still listed under root/%s refers to a deleted or undecodable object: %s", where, n, wh, p))
					ok = false
					break
				}
			}
		}
		return ok
	}
	if is09 {
		after, err := A.conn.Dump(A.table)
		if err != nil {
			fail("unreadable-after-vacuum:same-connection", "the vacuuming connection cannot read the table any more: "+err.Error())
			return
		}
		if d := firstDiff(preDump, after); d != "" {
			fail("rows-changed:same-connection", "rows through the vacuuming connection changed: "+d)
			return
		}
		fd, err := w.freshDump(true, "fresh-after-vacuum")
		if err != nil {
			fail("unreadable-after-vacuum:fresh", "a fresh connection cannot read the table after the vacuum: "+err.Error())
			return
		}
		if d := firstDiff(preDump, fd); d != "" {
			fail("rows-changed:fresh", "rows through a fresh connection differ after the vacuum: "+d)
			return
		}
		if !retainedOK(post, "after vacuum", nil) {
			return
		}
		// historic versions created at or after the cutoff
		seen := map[string]bool{}
		for i := range h.snaps {
			s := &h.snaps[i]
			if seen[s.Raw] {
				continue
			}
			seen[s.Raw] = true
			minCr := int64(1 << 62)
			for _, n := range s.Names {
				if v, ok := g[n]; ok && v.Created < minCr {
					minCr = v.Created
				} else if !ok {
					minCr = -1 // reclaimed by the earlier vacuum already
				}
			}
			if minCr < cutNanos {
				continue
			}
			c.Count("historic_versions_reread", 1)
			t, err := openVersions(w.st, fmt.Sprintf("hist%d", i), w.prefix, s.Names)
			if err != nil {
				fail("historic-version-unreadable", fmt.Sprintf("version %v (created at/after the cutoff) cannot be opened after the vacuum: %v", s.Names, err))
				return
			}
			rows, err := scanKV(t, cols)
			if err != nil {
				fail("historic-version-unreadable", fmt.Sprintf("version %v (created at/after the cutoff) cannot be scanned after the vacuum: %v", s.Names, err))
				return
			}
			if d := firstDiff(s.Dump, rows); d != "" {
				fail("historic-version-changed", fmt.Sprintf("version %v reads differently after the vacuum: %s", s.Names, d))
				return
			}
			ct := tname(c, "chg")
			if err := A.conn.Exec(fmt.Sprintf("create virtual table %s using s3db_changes (table='%s', from='[]', to='%s')", ct, A.table, s.Raw)); err == nil {
				rows, err := A.conn.Rows("select * from " + ct)
				A.conn.Exec("drop table " + ct)
				if err != nil {
					fail("historic-version-unreadable:sql", fmt.Sprintf("version %s cannot be read through s3db_changes after the vacuum: %v", s.Raw, err))
					return
				}
				if d := firstDiff(s.Dump, sortedRows(rows)); d != "" {
					fail("historic-version-changed:sql", fmt.Sprintf("version %s reads differently through s3db_changes after the vacuum: %s", s.Raw, d))
					return
				}
			}
		}
	}
	// ---------------------------------------------------------------- C10 oracles
	postNames := walk.VersionNames(post, base, "current")
	purged, kept := 0, 0
	reclaimed, retained := 0, 0
	if len(postNames) == 0 && len(preNames) == 1 {
		// the vacuum removed the current version object itself: allowed for an empty version
		// created before the cutoff, like any other version (otherwise what it links to can never
		// be reached, hence never reclaimed, again)
		removedCreated := int64(0)
		if v, ok := g[preNames[0]]; ok {
			removedCreated = v.Created
		}
		for _, ev := range vacEvents {
			if ev.Op == fs3.OpPut && strings.Contains(ev.Key, "/root/current/") {
				// the vacuum's own commit: created when its handle was last opened (N1)
				removedCreated = tnanos(openStamp[0])
			}
		}
		c.Count("removed_current_versions_checked", 1)
		if removedCreated >= cutNanos {
			fail("current-version-removed:created-at-or-after-cutoff", fmt.Sprintf("the vacuum (cutoff %s) removed the current version object although it was created at %s, not before the cutoff", tstr(cutoff), time.Unix(0, removedCreated).UTC().Format("2006-01-02 15:04:05")))
			return
		}
	}
	if !is09 && len(postNames) == 0 {
		// an empty current version older than the cutoff may be removed altogether
		live := 0
		for i := range preWalk.Entries {
			if preWalk.Entries[i].Live() {
				live++
			}
		}
		c.Count("vacuum_removed_empty_current", 1)
		if live > 0 {
			fail("current-version-removed", fmt.Sprintf("the vacuum removed the current version although the table holds %d rows", live))
		}
		return
	}
	if !is09 {
		if len(postNames) != 1 {
			fail("current-list", fmt.Sprintf("after the vacuum root/current holds %v", postNames))
			return
		}
		postWalk := walk.Walk(post, base, postNames[0])
		if len(postWalk.Problems) > 0 {
			fail("current-unreadable", postWalk.Problems[0])
			return
		}
		postBy := map[string]*walk.Entry{}
		for i := range postWalk.Entries {
			postBy[walk.KeyString(postWalk.Entries[i].Key)] = &postWalk.Entries[i]
		}
		for i := range preWalk.Entries {
			e := &preWalk.Entries[i]
			ks := walk.KeyString(e.Key)
			pe := postBy[ks]
			switch {
			case e.Row != nil && e.Row.Deleted && e.DeleteTime() < cutNanos:
				purged++
				if pe != nil {
					fail("marker-not-purged", fmt.Sprintf("key %s was deleted at %s, strictly before the cutoff %s, but still occupies the table after the vacuum (tombstone=%v)", ks, time.Unix(0, e.DeleteTime()).UTC().Format("15:04:05"), tstr(cutoff), pe.Tomb != 0))
					return
				}
			case e.Row != nil && e.Row.Deleted:
				kept++
				if pe == nil || pe.Row == nil || !pe.Row.Deleted || pe.DeleteTime() != e.DeleteTime() {
					sub := "after"
					if e.DeleteTime() == cutNanos {
						sub = "exactly-at"
					}
					fail("marker-lost:"+sub+"-cutoff", fmt.Sprintf("key %s was deleted at %s, not before the cutoff %s, but its delete marker is gone or altered after the vacuum", ks, time.Unix(0, e.DeleteTime()).UTC().Format("15:04:05"), tstr(cutoff)))
					return
				}
			default:
				if pe == nil {
					fail("live-row-removed", "key "+ks+" is gone from the tree after the vacuum")
					return
				}
			}
		}
		c.Count("markers_purged", int64(purged))
		c.Count("markers_kept", int64(kept))
		// retention rule on the DAG including the vacuum's own commit
		gp := vacGraph(post, base) // what is still there
		gAll := map[string]*vacVersion{}
		for n, v := range g {
			gAll[n] = v
		}
		for n, v := range gp {
			gAll[n] = v
		}
		// the graph the rule is evaluated on: everything reachable from the post-vacuum current version
		reach, expectGone := retentionRule(gAll, postNames, cutNanos)
		union := fs3.Snapshot{}
		for k, v := range pre {
			union[k] = v
		}
		for k, v := range post {
			union[k] = v
		}
		for n := range reach {
			_, still := gp[n]
			if expectGone[n] {
				reclaimed++
				if still && gp[n].Where == "merged" {
					fail("version-not-reclaimed", fmt.Sprintf("version %s has only successors created not after the cutoff %s but is still listed under root/merged", n, tstr(cutoff)))
					return
				}
			} else {
				retained++
				if !still {
					fail("version-wrongly-reclaimed", fmt.Sprintf("version %s has a successor created after the cutoff %s (or none) but its object is gone", n, tstr(cutoff)))
					return
				}
			}
		}
		c.Count("versions_reclaimed", int64(reclaimed))
		c.Count("versions_retained", int64(retained))
		// nodes: gone iff reachable only from reclaimed versions
		needRetained := map[string]bool{}
		needGone := map[string]bool{}
		for n := range reach {
			nodes := walk.Reach(union, base, n)
			for nd := range nodes {
				if expectGone[n] {
					needGone[nd] = true
				} else {
					needRetained[nd] = true
				}
			}
		}
		for nd := range needGone {
			if needRetained[nd] {
				continue
			}
			if _, still := post[base+"node/"+nd]; still {
				fail("node-not-reclaimed", fmt.Sprintf("node %s was needed only by reclaimed versions but is still stored after the vacuum", nd))
				return
			}
			c.Count("nodes_expected_gone", 1)
		}
		for nd := range needRetained {
			if _, still := post[base+"node/"+nd]; !still {
				if _, was := pre[base+"node/"+nd]; was {
					fail("node-wrongly-reclaimed", fmt.Sprintf("node %s is needed by a retained version but was deleted by the vacuum", nd))
					return
				}
			}
		}
		// identical second vacuum: listing unchanged
		l1 := w.st.Listing(base)
		res, err := A.conn.Rows("select vacuum_error from s3db_vacuum('"+A.table+"', ?)", tstr(cutoff))
		w.logf("w0 SECOND VACUUM -> %v %v", res, err)
		if err != nil || len(res) != 1 || res[0] != "NULL" {
			fail("second-vacuum-error", fmt.Sprintf("%v %v", res, err))
			return
		}
		l2 := w.st.Listing(base)
		c.Count("second_vacuums", 1)
		if d := firstDiff(l1, l2); d != "" {
			fail("second-vacuum-changes-bucket", "repeating the same vacuum changed the bucket listing: "+d)
			return
		}
		// more writes through the same handle (nothing to purge), then the same vacuum once more: what those
		// writes superseded was superseded before the cutoff (a cutoff after everything), so it goes too
		if cutNanos > tnanos(vclock+50) && c.Res.Status != "violated" {
			if stmt(0, "ins", 9600+c.Index, map[string]string{"a": "t:more"}) && stmt(0, "upd", 9600+c.Index, map[string]string{"b": "t:more2"}) {
				res, err := A.conn.Rows("select vacuum_error from s3db_vacuum('"+A.table+"', ?)", tstr(cutoff))
				w.logf("w0 two more writes; THE SAME VACUUM again -> %v %v", res, err)
				c.Count("vacuums_again_after_more_writes", 1)
				if err != nil || len(res) != 1 || res[0] != "NULL" {
					fail("vacuum-error", fmt.Sprintf("%v %v", res, err))
					return
				}
				if left := walk.VersionNames(w.st.Snapshot(), base, "merged"); len(left) > 0 {
					fail("version-not-reclaimed:after-more-writes", fmt.Sprintf("after two more writes through the vacuuming connection the same vacuum (cutoff %s, after everything) leaves %d superseded versions under root/merged (first: %s)", tstr(cutoff), len(left), left[0]))
					return
				}
			}
		}
		// a vacuum that failed at one request and is then repeated undisturbed: the repetition succeeds and
		// finishes the job - of the node objects the pre-vacuum versions used, none is left that no listed
		// version reaches any more (such an object can never be reclaimed)
		if c.Index%3 == 0 && muts > 0 && muts <= 40 && c.Res.Status != "violated" {
			preReach := map[string][]string{} // node -> pre-vacuum versions that use it
			for _, wh := range []string{"current", "merged"} {
				for _, n := range walk.VersionNames(pre, base, wh) {
					for nd := range walk.Reach(pre, base, n) {
						preReach[nd] = append(preReach[nd], n)
					}
				}
			}
			for k := 0; k <= muts && c.Res.Status != "violated"; k++ {
				st2 := newStore()
				st2.Restore(pre)
				vclockSet(st2.Name, vclock)
				conn := OpenConn("rep")
				t := tname(c, "rep")
				spec := TableSpec{Name: t, Cols: "k PRIMARY KEY, a, b, c", Store: st2.Name, Client: "rep", Prefix: w.prefix, EPN: epn}
				if err := conn.Create(spec); err == nil {
					cl := st2.Client("rep")
					cl.ResetCounters()
					if k > 0 {
						cl.AddFault(fs3.Fault{AtMut: k, Action: "error"})
						conn.Rows("select vacuum_error from s3db_vacuum('"+t+"', ?)", tstr(cutoff))
						cl.ClearFaults()
					}
					res, err := conn.Rows("select vacuum_error from s3db_vacuum('"+t+"', ?)", tstr(cutoff))
					c.Count("vacuums_repeated_after_a_failure", 1)
					where := fmt.Sprintf("vacuum (cutoff %s) whose mutating request %d of %d failed, then the same vacuum again", tstr(cutoff), k, muts)
					if err != nil || len(res) != 1 || res[0] != "NULL" {
						fail("repeat-after-failure-fails", fmt.Sprintf("%s: the repetition reports %v %v", where, res, err))
					} else {
						after := st2.Snapshot()
						reach := map[string]bool{}
						listed := map[string]bool{}
						for _, wh := range []string{"current", "merged"} {
							for _, n := range walk.VersionNames(after, base, wh) {
								listed[n] = true
								for nd := range walk.Reach(after, base, n) {
									reach[nd] = true
								}
							}
						}
						for nd, users := range preReach {
							if _, still := after[base+"node/"+nd]; !still || reach[nd] {
								continue
							}
							// which of the versions that used it are still listed (though no longer walkable)?
							kind := "its-versions-are-gone"
							for _, u := range users {
								if listed[u] {
									kind = "its-version-is-listed-but-unwalkable"
								}
							}
							// had the failed vacuum deleted node objects before it failed? (then trees of versions it
							// was reclaiming are no longer walkable: known finding D35)
							nodesDeleted := 0
							for _, ev := range st2.Log() {
								if ev.Client == "rep" && ev.Res == "fault" {
									break
								}
								if ev.Client == "rep" && ev.Op == fs3.OpDel && strings.Contains(ev.Key, "/node/") {
									nodesDeleted++
								}
							}
							if nodesDeleted > 0 {
								kind = "after-some-nodes-were-deleted:" + kind
							} else {
								kind = "no-node-had-been-deleted:" + kind
							}
							fail("orphan-node-after-repeated-vacuum:"+kind, fmt.Sprintf("%s (which succeeded): node %s is still stored, but no listed version reaches it any more", where, nd))
							break
						}
					}
				}
				conn.Close()
				dropStore(st2)
				vclockDrop(st2.Name)
			}
		}
		// late merge: a writer that still holds a live copy writes with an older stamp
		if nw >= 2 && cutoff < syncStamp-1 && len(lateDeleted) > 0 {
			B := w.ws[1]
			n := 0
			for kk, td := range lateDeleted {
				if td < cutoff {
					// deleted before the cutoff: the marker is purged and a late merge may bring the row back
					delete(lateDeleted, kk)
					continue
				}
				// B has not seen the delete; its update is stamped older than the delete
				if err := B.conn.SetWriteTime(td - 1); err != nil {
					continue
				}
				cnt, err := B.conn.ExecN(fmt.Sprintf("update %s set c='late' where k=%d", B.table, kk))
				w.logf("w1 LATE update k%d @%d -> %d %v", kk, td-1, cnt, err)
				if err != nil {
					fail("late-writer-error", "a writer that synchronised after the cutoff cannot write after the vacuum: "+err.Error())
					return
				}
				if cnt > 0 {
					n++
				}
			}
			tick()
			if err := A.conn.Exec("select s3db_refresh('" + A.table + "')"); err != nil {
				fail("refresh-error", "refresh after the vacuum failed: "+err.Error())
				return
			}
			for kk := range lateDeleted {
				rows, _ := A.conn.Rows(fmt.Sprintf("select k from %s where k=%d", A.table, kk))
				if len(rows) != 0 {
					fail("resurrected", fmt.Sprintf("row %d was deleted at/after the cutoff; after the vacuum a merge of an older write brought it back", kk))
					return
				}
			}
			if n > 0 {
				c.Count("late_merges_checked", 1)
			}
		}
		// at the very end: everybody synchronises, then a vacuum with a cutoff after everything - every
		// superseded version was superseded before that cutoff, so no version object may be left under
		// root/merged, and every stored node is one the current version uses
		if c.Res.Status != "violated" {
			for round := 0; round < 2; round++ {
				for j := 0; j < nw; j++ {
					tick()
					refresh(j)
				}
			}
			tick()
			refresh(0)
			tick()
			res, err := A.conn.Rows("select vacuum_error from s3db_vacuum('"+A.table+"', ?)", tstr(vclock+1000))
			w.logf("w0 LAST VACUUM cutoff after everything -> %v %v", res, err)
			c.Count("last_vacuums", 1)
			if err != nil || len(res) != 1 || res[0] != "NULL" {
				fail("vacuum-error", fmt.Sprintf("the last s3db_vacuum reported %v %v", res, err))
			} else {
				last := w.st.Snapshot()
				if left := walk.VersionNames(last, base, "merged"); len(left) > 0 {
					fail("version-never-reclaimed", fmt.Sprintf("after every writer synchronised and a vacuum with a cutoff after everything, %d superseded versions are still stored under root/merged (first: %s)", len(left), left[0]))
				} else if cur := walk.VersionNames(last, base, "current"); len(cur) == 1 {
					reach := walk.Reach(last, base, cur[0])
					for _, nd := range walk.NodeNames(last, base) {
						if !reach[nd] {
							if _, was := pre[base+"node/"+nd]; was {
								fail("node-never-reclaimed", fmt.Sprintf("after every writer synchronised and a vacuum with a cutoff after everything, node %s (in the bucket since before the first vacuum) is still stored although the current version does not use it", nd))
								break
							}
						}
					}
				}
			}
		}
	}
	// ---------------------------------------------------------------- C09: later use and crash sweep
	if is09 {
		for j := 1; j < nw; j++ {
			tick()
			if err := refresh(j); err != nil {
				fail("refresh-after-vacuum", fmt.Sprintf("writer w%d cannot refresh after the vacuum: %v", j, err))
				return
			}
		}
		tick()
		wi := r.Intn(nw)
		hw := w.ws[wi]
		hw.conn.SetWriteTime(vclock - lag)
		if err := hw.conn.Exec(fmt.Sprintf("insert into %s(k,a) values (%d,'after-vacuum')", hw.table, 5000+c.Index)); err != nil {
			fail("write-after-vacuum", "a write after the vacuum failed: "+err.Error())
			return
		}
		if _, err := w.freshDump(true, "fresh-after-write"); err != nil {
			fail("unreadable-after-vacuum:later", "a fresh open after a later write failed: "+err.Error())
			return
		}
		if !retainedOK(w.st.Snapshot(), "after a later write", nil) {
			return
		}
		// one more vacuum, now with nothing left to purge and a cutoff after everything: it
		// reclaims all superseded versions while the current one may share nodes with them
		{
			// synchronise first: vacuuming next to an unmerged fork is documented as unsafe
			for round := 0; round < 2; round++ {
				for j := 0; j < nw; j++ {
					tick()
					refresh(j)
				}
			}
			tick()
			refresh(0)
			if lag > 0 && c.Res.Status != "violated" {
				// the table returns to the content of a version that is still retained: insert a
				// fresh key, delete it, purge its marker with a cutoff older than every version
				tick()
				kx := 9000 + c.Index
				if stmt(0, "ins", kx, map[string]string{"a": "t:transient"}) && stmt(0, "del", kx, nil) {
					cut := vclock - lag + 1
					res, err := A.conn.Rows("select vacuum_error from s3db_vacuum('"+A.table+"', ?)", tstr(cut))
					w.logf("w0 VACUUM purging only the transient key, cutoff @%d -> %v %v", cut, res, err)
					c.Count("purge_only_vacuums", 1)
					if err != nil || len(res) != 1 || res[0] != "NULL" {
						fail("vacuum-error", fmt.Sprintf("s3db_vacuum reported %v %v", res, err))
						return
					}
				}
			}
			tick()
			before, err := A.conn.Dump(A.table)
			if err == nil {
				res, err := A.conn.Rows("select vacuum_error from s3db_vacuum('"+A.table+"', ?)", tstr(vclock+1000))
				w.logf("w0 FINAL VACUUM cutoff after everything -> %v %v", res, err)
				c.Count("final_vacuums", 1)
				if err != nil || len(res) != 1 || res[0] != "NULL" {
					fail("vacuum-error", fmt.Sprintf("final s3db_vacuum reported %v %v", res, err))
					return
				}
				after, err := A.conn.Dump(A.table)
				if err != nil {
					fail("unreadable-after-vacuum:same-connection", "after the final vacuum the vacuuming connection cannot read the table: "+err.Error())
					return
				}
				if d := firstDiff(before, after); d != "" {
					fail("rows-changed:same-connection", "rows through the vacuuming connection changed across the final vacuum: "+d)
					return
				}
				fd, err := w.freshDump(true, "fresh-after-final-vacuum")
				if err != nil {
					fail("unreadable-after-vacuum:fresh", "a fresh connection cannot read the table after the final vacuum: "+err.Error())
					return
				}
				if d := firstDiff(before, fd); d != "" {
					fail("rows-changed:fresh", "rows through a fresh connection differ after the final vacuum: "+d)
					return
				}
				if !retainedOK(w.st.Snapshot(), "after the final vacuum", nil) {
					return
				}
				// the table returns to the content of a version that an earlier vacuum has reclaimed
				// together with its nodes: insert a key, vacuum (the version before the insert goes,
				// with the nodes only it used), delete the key, vacuum again (the marker is purged):
				// the tree is the one from before the insert, and its nodes have to be stored again
				kz := 9500 + c.Index
				if stmt(0, "ins", kz, map[string]string{"a": "t:transient2"}) {
					tick()
					res, err := A.conn.Rows("select vacuum_error from s3db_vacuum('"+A.table+"', ?)", tstr(vclock+1000))
					w.logf("w0 VACUUM after inserting the transient key, cutoff after everything -> %v %v", res, err)
					if err != nil || len(res) != 1 || res[0] != "NULL" {
						fail("vacuum-error", fmt.Sprintf("s3db_vacuum reported %v %v", res, err))
						return
					}
					if !stmt(0, "del", kz, nil) {
						return
					}
					tick()
					res, err = A.conn.Rows("select vacuum_error from s3db_vacuum('"+A.table+"', ?)", tstr(vclock+1000))
					w.logf("w0 VACUUM purging the transient key, cutoff after everything -> %v %v", res, err)
					c.Count("returns_to_reclaimed_content", 1)
					if err != nil || len(res) != 1 || res[0] != "NULL" {
						fail("vacuum-error", fmt.Sprintf("s3db_vacuum reported %v %v", res, err))
						return
					}
					fd, err := w.freshDump(true, "fresh-after-return")
					if err != nil {
						fail("unreadable-after-vacuum:fresh", "after the table returned to the content of a reclaimed version a fresh connection cannot read it: "+err.Error())
						return
					}
					if d := firstDiff(before, fd); d != "" {
						fail("rows-changed:fresh", "after the table returned to the content of a reclaimed version a fresh connection reads other rows: "+d)
						return
					}
					if !retainedOK(w.st.Snapshot(), "after returning to the content of a reclaimed version", nil) {
						return
					}
				}
				// with the node cache on: a vacuum that fails while it deletes (one DELETE refused) has
				// removed some node objects already; whatever the cache remembers about them must not make a
				// later commit skip storing them when the table returns to their content
				if w.cache > 0 && c.Res.Status != "violated" {
					k1, k2 := 9800+c.Index, 9850+c.Index
					if stmt(0, "ins", k1, map[string]string{"a": "t:transient3"}) && stmt(0, "ins", k2, map[string]string{"a": "t:transient4"}) {
						var withK1 []string
						if d, err := A.conn.Dump(A.table); err == nil {
							for _, row := range d {
								if !strings.HasPrefix(row, fmt.Sprintf("i:%d|", k2)) {
									withK1 = append(withK1, row)
								}
							}
						}
						f := fs3.Fault{Op: fs3.OpDel, KeyContain: "/node/", Skip: 1, Action: "error"}
						if r.Bool() {
							f = fs3.Fault{Op: fs3.OpDel, KeyContain: "/root/merged/", Action: "error"}
						}
						tick()
						w.st.Client("w0").AddFault(f)
						res, err := A.conn.Rows("select vacuum_error from s3db_vacuum('"+A.table+"', ?)", tstr(vclock+1000))
						w.st.Client("w0").ClearFaults()
						w.logf("w0 VACUUM with one refused DELETE (%s) -> %v %v", f.KeyContain, res, err)
						c.Count("vacuums_with_a_refused_delete", 1)
						for step, kk := range []int{k2, k1} {
							if !stmt(0, "del", kk, nil) {
								return
							}
							tick()
							res, err := A.conn.Rows("select vacuum_error from s3db_vacuum('"+A.table+"', ?)", tstr(vclock+1000))
							w.logf("w0 del k%d; VACUUM cutoff after everything -> %v %v", kk, res, err)
							if err != nil || len(res) != 1 || res[0] != "NULL" {
								fail("vacuum-error", fmt.Sprintf("s3db_vacuum after an earlier failed one reported %v %v", res, err))
								return
							}
							want := before
							if step == 0 {
								want = withK1
							}
							fd, err := w.freshDump(true, fmt.Sprintf("fresh-after-failed-vacuum-%d", step))
							if err != nil {
								fail("unreadable-after-vacuum:fresh", "after a failed vacuum and a return to earlier content a fresh connection cannot read the table: "+err.Error())
								return
							}
							if d := firstDiff(want, fd); d != "" {
								fail("rows-changed:fresh", "after a failed vacuum and a return to earlier content a fresh connection reads other rows: "+d)
								return
							}
							if !retainedOK(w.st.Snapshot(), "after a failed vacuum and a return to earlier content", nil) {
								return
							}
						}
					}
				}
				// the same across connections: another writer inserts a row; the vacuuming connection
				// deletes it and vacuums (marker purged, the version with the row and its nodes
				// reclaimed); the other writer refreshes and replays the very same insert (same write
				// time): its tree is again the reclaimed one and has to be stored again
				if nw >= 2 && c.Res.Status != "violated" {
					B := w.ws[1]
					kr := 9700 + c.Index
					tick()
					refresh(1)
					tr := vclock - lag
					ins := fmt.Sprintf("insert into %s(k,a) values (%d,'replayed')", B.table, kr)
					B.conn.SetWriteTime(tr)
					if err := B.conn.Exec(ins); err != nil {
						fail("write-after-vacuum", "a write after the vacuum failed: "+err.Error())
						return
					}
					w.logf("w1 @%d ins k%d a=replayed", tr, kr)
					withRow, err := B.conn.Dump(B.table)
					if err != nil {
						fail("dump-error", err.Error())
						return
					}
					tick()
					refresh(0)
					A.conn.SetWriteTime(vclock - lag)
					if err := A.conn.Exec(fmt.Sprintf("delete from %s where k=%d", A.table, kr)); err != nil {
						fail("write-after-vacuum", "a write after the vacuum failed: "+err.Error())
						return
					}
					tick()
					res, err := A.conn.Rows("select vacuum_error from s3db_vacuum('"+A.table+"', ?)", tstr(vclock+1000))
					w.logf("w0 del k%d; VACUUM cutoff after everything -> %v %v", kr, res, err)
					if err != nil || len(res) != 1 || res[0] != "NULL" {
						fail("vacuum-error", fmt.Sprintf("s3db_vacuum reported %v %v", res, err))
						return
					}
					tick()
					refresh(1)
					B.conn.SetWriteTime(tr)
					if err := B.conn.Exec(ins); err != nil {
						fail("write-after-vacuum", "replaying an insert after another connection's vacuum failed: "+err.Error())
						return
					}
					w.logf("w1 REFRESH; @%d ins k%d a=replayed (replay)", tr, kr)
					c.Count("replays_after_foreign_vacuum", 1)
					fd, err := w.freshDump(true, "fresh-after-replay")
					if err != nil {
						fail("unreadable-after-vacuum:fresh", "after a writer replayed an insert that another connection had deleted and vacuumed, a fresh connection cannot read the table: "+err.Error())
						return
					}
					if d := firstDiff(withRow, fd); d != "" {
						fail("rows-changed:fresh", "after a writer replayed an insert that another connection had deleted and vacuumed, a fresh connection reads other rows than the writer did: "+d)
						return
					}
					if !retainedOK(w.st.Snapshot(), "after a replayed insert", nil) {
						return
					}
				}
			}
		}
		// read failures matter where the vacuum has to protect versions it keeps: swept for every
		// case in which a version other than the current one was created at or after the cutoff
		keptHistoric := 0
		for n, v := range g {
			if n != preNames[0] && v.Created >= cutNanos {
				keptHistoric++
			}
		}
		doMut := c.Index%3 == 0 && muts > 0 && muts <= 60
		doRead := keptHistoric > 0 && deletedObjs > 0
		if doMut || doRead {
			c.Count("crash_sweeps", 1)
			// a rehearsal on a cold connection counts the vacuum's requests, for the read-failure points
			nreq, readFrom := 0, 0
			{
				st0 := newStore()
				st0.Restore(pre)
				vclockSet(st0.Name, vclock)
				c0 := OpenConn("crash")
				t0 := tname(c, "cr")
				if c0.Create(TableSpec{Name: t0, Cols: "k PRIMARY KEY, a, b, c", Store: st0.Name, Client: "crash", Prefix: w.prefix, EPN: epn}) == nil {
					st0.Client("crash").ResetCounters()
					c0.Rows("select vacuum_error from s3db_vacuum('"+t0+"', ?)", tstr(cutoff))
					nreq, _ = st0.Client("crash").Counters()
				}
				c0.Close()
				dropStore(st0)
				vclockDrop(st0.Name)
				// the passes that protect kept versions come last before the deletions: of a long
				// vacuum the last 60 requests are swept
				if nreq > 60 {
					readFrom = nreq - 60
					nreq = 60
				}
				if !doRead {
					nreq = 0
				}
			}
			for kk := 0; kk <= 2*muts+nreq; kk++ {
				// even: the process dies at mutating request k (k=0: before the first); odd: request k
				// fails once and the same connection carries on; beyond 2*muts: request number
				// kk-2*muts fails once if it is a GET, and the connection carries on
				k, errMode := kk/2, kk%2 == 1
				readAt := 0
				if kk > 2*muts {
					k, errMode, readAt = 0, true, readFrom+kk-2*muts
				}
				if errMode && k == 0 && readAt == 0 {
					continue
				}
				if readAt == 0 && !doMut {
					continue
				}
				st2 := newStore()
				st2.Restore(pre)
				vclockSet(st2.Name, vclock)
				conn := OpenConn("crash")
				t := tname(c, "cr")
				spec := TableSpec{Name: t, Cols: "k PRIMARY KEY, a, b, c", Store: st2.Name, Client: "crash", Prefix: w.prefix, EPN: epn}
				if err := conn.Create(spec); err != nil {
					fail("crash-setup", err.Error())
					conn.Close()
					dropStore(st2)
					vclockDrop(st2.Name)
					return
				}
				cl := st2.Client("crash")
				cl.ResetCounters()
				switch {
				case readAt > 0:
					cl.AddFault(fs3.Fault{AtReq: readAt, Op: fs3.OpGet, Action: "error"})
				case errMode:
					cl.AddFault(fs3.Fault{AtMut: k, Action: "error"})
				case k == 0:
					cl.AddFault(fs3.Fault{AtMut: 1, Action: "crash-before"})
				default:
					cl.AddFault(fs3.Fault{AtMut: k, Action: "crash-after"})
				}
				conn.Rows("select vacuum_error from s3db_vacuum('"+t+"', ?)", tstr(cutoff))
				okc := true
				preDump := preDump
				if errMode {
					// the vacuum failed part-way; the connection goes on: it reads what it read before,
					// and what it writes next must be complete in the bucket
					cl.ClearFaults()
					c.Count("failed_vacuum_points", 1)
					crashWhere := fmt.Sprintf("vacuum (cutoff %s) whose mutating request %d of %d failed", tstr(cutoff), k, muts)
					if readAt > 0 {
						c.Count("failed_vacuum_points_read", 1)
						crashWhere = fmt.Sprintf("vacuum (cutoff %s) whose request %d failed if it was a GET", tstr(cutoff), readAt)
					}
					d, err := conn.Dump(t)
					if err != nil {
						fail("failed-vacuum:connection-unreadable", crashWhere+": the same connection cannot read the table any more: "+err.Error())
						okc = false
					} else if df := firstDiff(preDump, d); df != "" {
						fail("failed-vacuum:rows-changed", crashWhere+": the same connection reads other rows: "+df)
						okc = false
					} else {
						conn.SetWriteTime(vclock - lag + 50)
						if err := conn.Exec(fmt.Sprintf("insert into %s(k,a) values (%d,'after-failed-vacuum')", t, 9900)); err != nil {
							fail("failed-vacuum:write-fails", crashWhere+": the same connection cannot write afterwards: "+err.Error())
							okc = false
						} else if d, err = conn.Dump(t); err == nil {
							preDump = d
						}
					}
				} else {
					c.Count("crash_points", 1)
				}
				conn.Close()
				frozen := st2.Snapshot()
				if !okc {
					dropStore(st2)
					vclockDrop(st2.Name)
					return
				}
				logLen := len(w.log)
				{
					var evs []string
					for _, ev := range st2.Log() {
						if ev.Op == fs3.OpPut || ev.Op == fs3.OpDel {
							evs = append(evs, fmt.Sprintf("%s %s %s %s", ev.Client, ev.Op, shortKey(ev.Key), ev.Res))
						}
					}
					w.logf("mutating requests of this sweep point: %s", strings.Join(evs, "; "))
				}
				sigm, how := "crash", fmt.Sprintf("vacuum (cutoff %s) crashed after mutating request %d of %d", tstr(cutoff), k, muts)
				if errMode {
					sigm, how = "failed-vacuum", fmt.Sprintf("vacuum (cutoff %s) whose mutating request %d of %d failed, then an insert on the same connection", tstr(cutoff), k, muts)
				}
				if readAt > 0 {
					how = fmt.Sprintf("vacuum (cutoff %s) whose request %d failed if it was a GET, then an insert on the same connection", tstr(cutoff), readAt)
				}
				for _, ro := range []bool{true, false, true} {
					c2 := OpenConn("rec")
					t2 := tname(c, "rec")
					s2 := spec
					s2.Name, s2.Client, s2.ReadOnly = t2, fmt.Sprintf("rec%v", ro), ro
					err := c2.Create(s2)
					var d []string
					if err == nil {
						d, err = c2.Dump(t2)
					}
					c2.Close()
					if err != nil {
						fail(sigm+":open-fails", fmt.Sprintf("%s: recovery open (readonly=%v) fails: %v", how, ro, err))
						okc = false
						break
					}
					if df := firstDiff(preDump, d); df != "" {
						fail(sigm+":rows-changed", fmt.Sprintf("%s: a new connection reads other rows: %s", how, df))
						okc = false
						break
					}
				}
				if okc {
					// after the recovery opens the table is quiescent: one more read-write open writes nothing
					l1 := st2.Listing(base)
					c2 := OpenConn("rec")
					s2 := spec
					s2.Name, s2.Client = tname(c, "rec"), "recq"
					c2.Create(s2)
					c2.Close()
					if d := firstDiff(l1, st2.Listing(base)); d != "" {
						fail(sigm+":not-quiescent", fmt.Sprintf("%s: after three recovery opens a further read-write open still changes the bucket: %s", how, d))
						okc = false
					}
				}
				if okc {
					// version objects that the interrupted vacuum was about to
					// remove may still be listed while their nodes are gone;
					// they are not retained versions
					gf := vacGraph(frozen, base)
					for n, v := range g {
						if _, ok := gf[n]; !ok {
							gf[n] = v
						}
					}
					_, gone := retentionRule(gf, walk.VersionNames(frozen, base, "current"), cutNanos)
					skipAlsoCurrent = errMode && readAt == 0
					okc = retainedOK(frozen, how, gone)
					skipAlsoCurrent = false
				}
				dropStore(st2)
				vclockDrop(st2.Name)
				if !okc {
					return
				}
				w.log = w.log[:logLen]
			}
		}
	}
	if is09 && w.cache > 0 && c.Res.Status != "violated" {
		c09CacheReturn(c, r)
	}
	if is09 && c.Index%8 == 2 && c.Res.Status != "violated" {
		c09KeepWalk(c, r)
	}
	if !is09 && c.Index%8 == 3 && c.Res.Status != "violated" {
		c10EmptyFork(c, r)
	}
	// non-triviality
	shared := false
	if len(g) >= 2 && len(postNames) > 0 {
		cur := walk.Reach(post, base, postNames[0])
		for n := range g {
			if n == postNames[0] || n == preNames[0] {
				continue
			}
			for nd := range walk.Reach(pre, base, n) {
				if cur[nd] {
					shared = true
				}
			}
		}
	}
	if is09 && deletedObjs > 0 && shared {
		c.NonTrivial(fmt.Sprint(w.log, cutoff))
	}
	if !is09 && ((purged > 0 && kept > 0) || (reclaimed > 0 && retained > 0)) {
		c.NonTrivial(fmt.Sprint(w.log, cutoff))
	}
	if c.Index < 4 {
		l := w.log
		if len(l) > 14 {
			l = l[len(l)-14:]
		}
		c.Res.Sample = map[string]interface{}{"writers": nw, "entries_per_node": epn, "cutoff": tstr(cutoff), "cutoff_kind": cutKind, "history_tail": l, "objects_deleted": deletedObjs}
	}
}

// c09CacheReturn is the deterministic form of the "failed vacuum, then a return
// to earlier content" tail: a table with one value column (equal rows encode
// to equal bytes, N4), node cache on, single-node tree. Versions {rows},
// {rows+k1}, {rows+k1+k2}; a vacuum with one refused DELETE removes some of
// the two old nodes; deleting k2 and k1 again, each followed by a vacuum,
// returns the table to exactly those nodes, which must be stored again.
func c09CacheReturn(c *Case, r *Rng) {
	st := newStore()
	defer dropStore(st)
	conn := OpenConn("cr")
	defer conn.Close()
	t := tname(c, "cret")
	spec := TableSpec{Name: t, Cols: "k PRIMARY KEY, a", Store: st.Name, Client: "cr", Prefix: "cret", EPN: 4096, Cache: 32}
	fail := func(sig, msg string) {
		c.Violate("C09:cache-return:"+sig, msg, map[string]interface{}{"create": spec.SQL()})
	}
	step := func(ts int, q string) bool {
		conn.SetWriteTime(ts)
		if err := conn.Exec(q); err != nil {
			fail("statement-error", q+": "+err.Error())
			return false
		}
		return true
	}
	if err := conn.Create(spec); err != nil {
		fail("statement-error", err.Error())
		return
	}
	n := r.Range(1, 4)
	var vals []string
	for i := 1; i <= n; i++ {
		vals = append(vals, fmt.Sprintf("(%d,'r%d')", i, i))
	}
	if !step(100, "insert into "+t+" values "+strings.Join(vals, ",")) {
		return
	}
	rows, _ := conn.Dump(t)
	if !step(101, "insert into "+t+" values (101,'k1')") {
		return
	}
	rowsK1, _ := conn.Dump(t)
	if !step(102, "insert into "+t+" values (102,'k2')") {
		return
	}
	vacuum := func() error {
		res, err := conn.Rows("select vacuum_error from s3db_vacuum('"+t+"', ?)", "2100-01-01 00:00:00")
		if err == nil && (len(res) != 1 || res[0] != "NULL") {
			err = fmt.Errorf("%v", res)
		}
		return err
	}
	f := fs3.Fault{Op: fs3.OpDel, KeyContain: "/node/", Skip: 1, Action: "error"}
	if r.Bool() {
		f = fs3.Fault{Op: fs3.OpDel, KeyContain: "/root/merged/", Action: "error"}
	}
	st.Client("cr").AddFault(f)
	verr := vacuum()
	st.Client("cr").ClearFaults()
	c.Count("cache_return_scenarios", 1)
	if verr != nil {
		c.Count("cache_return_vacuums_failed_as_planned", 1)
	}
	base := walk.Base("cret")
	for i, x := range []struct {
		ts   int
		q    string
		want []string
	}{{103, "delete from " + t + " where k=102", rowsK1}, {104, "delete from " + t + " where k=101", rows}} {
		if !step(x.ts, x.q) {
			return
		}
		if err := vacuum(); err != nil {
			fail("vacuum-error", fmt.Sprintf("the vacuum after %q (an earlier vacuum had failed at a refused DELETE under %s) failed: %v", x.q, f.KeyContain, err))
			return
		}
		snap := st.Snapshot()
		for _, name := range walk.VersionNames(snap, base, "current") {
			if v := walk.Walk(snap, base, name); len(v.Problems) > 0 {
				fail("current-version-broken", fmt.Sprintf("step %d: after the table returned to the content of a version whose node an earlier, failed vacuum had deleted, the current version %s is incomplete: %s", i, name, v.Problems[0]))
				return
			}
		}
		fc := OpenConn("crf")
		ft := tname(c, "cretf")
		fs := spec
		fs.Name, fs.Client, fs.Cache, fs.ReadOnly = ft, "crf", 0, true
		var fd []string
		err := fc.Create(fs)
		if err == nil {
			fd, err = fc.Dump(ft)
		}
		fc.Close()
		if err != nil {
			fail("unreadable:fresh", fmt.Sprintf("step %d: a fresh connection cannot read the table: %v", i, err))
			return
		}
		if d := firstDiff(x.want, fd); d != "" {
			fail("rows-changed:fresh", fmt.Sprintf("step %d: a fresh connection reads other rows than the table held at that content before: %s", i, d))
			return
		}
	}
}

// c09KeepWalk is a deterministic scenario for the pass that protects the nodes
// of kept versions: one value column (N4), entries_per_node 4. A row is
// inserted and deleted, an early vacuum purges the marker (the table is back at
// the first version's content and shares its nodes), one more row is inserted.
// The vacuum under test keeps the purged version (its successor is younger
// than the cutoff) and reclaims the first three; every GET position of that
// vacuum fails once; whatever the vacuum reports, the kept versions must stay
// complete.
func c09KeepWalk(c *Case, r *Rng) {
	vclockInstall()
	st := newStore()
	defer dropStore(st)
	defer vclockDrop(st.Name)
	spec := TableSpec{Name: tname(c, "kw"), Cols: "k PRIMARY KEY, a", Store: st.Name, Client: "kw", Prefix: "kw", EPN: 4}
	fail := func(sig, msg string) {
		c.Violate("C09:keep-walk:"+sig, msg, map[string]interface{}{"create": spec.SQL()})
	}
	conn := OpenConn("kw")
	t := spec.Name
	clock := 10
	vclockSet(st.Name, clock)
	if err := conn.Create(spec); err != nil {
		conn.Close()
		fail("statement-error", err.Error())
		return
	}
	do := func(wt int, q string, args ...interface{}) bool {
		clock += 10
		vclockSet(st.Name, clock)
		conn.Exec("select s3db_refresh('" + t + "')")
		conn.SetWriteTime(wt)
		if _, err := conn.Rows(q, args...); err != nil {
			fail("statement-error", q+": "+err.Error())
			return false
		}
		return true
	}
	n := r.Range(9, 20)
	var vals []string
	for i := 1; i <= n; i++ {
		vals = append(vals, fmt.Sprintf("(%d,'r%d')", i*10, i))
	}
	x := 10*r.Range(1, n) + 5
	y := 10*r.Range(1, n) + 7
	ok := do(1, "insert into "+t+" values "+strings.Join(vals, ",")) && // created @20
		do(2, fmt.Sprintf("insert into %s values (%d,'x')", t, x)) && // @30
		do(3, fmt.Sprintf("delete from %s where k=%d", t, x)) && // @40
		do(4, "select * from s3db_vacuum('"+t+"', ?)", tstr(5)) && // @50: purges the marker, reclaims nothing
		do(6, fmt.Sprintf("insert into %s values (%d,'y')", t, y)) // @60
	conn.Close()
	if !ok {
		return
	}
	pre := st.Snapshot()
	base := walk.Base("kw")
	cutoff := 55
	kept := []string{}
	for name, v := range vacGraph(pre, base) {
		if v.Created >= tnanos(50) {
			kept = append(kept, name)
		}
	}
	if len(kept) != 2 {
		c.Count("keep_walk_scenarios_without_two_kept_versions", 1)
		return
	}
	run := func(at int) (reqs int, verr error, snap fs3.Snapshot) {
		s2 := newStore()
		defer dropStore(s2)
		s2.Restore(pre)
		vclockSet(s2.Name, 70)
		defer vclockDrop(s2.Name)
		cn := OpenConn("kw")
		defer cn.Close()
		sp := spec
		sp.Store = s2.Name
		if err := cn.Create(sp); err != nil {
			return 0, err, nil
		}
		cl := s2.Client("kw")
		cl.ResetCounters()
		if at > 0 {
			cl.AddFault(fs3.Fault{AtReq: at, Op: fs3.OpGet, Action: "error"})
		}
		res, err := cn.Rows("select vacuum_error from s3db_vacuum('"+t+"', ?)", tstr(cutoff))
		if err == nil && (len(res) != 1 || res[0] != "NULL") {
			err = fmt.Errorf("%v", res)
		}
		reqs, _ = cl.Counters()
		return reqs, err, s2.Snapshot()
	}
	R, verr, _ := run(0)
	if verr != nil {
		fail("vacuum-error", "the vacuum failed without any fault: "+verr.Error())
		return
	}
	c.Count("keep_walk_scenarios", 1)
	for p := 1; p <= R && p <= 120; p++ {
		_, verr, snap := run(p)
		c.Count("keep_walk_fault_points", 1)
		if verr != nil {
			c.Count("keep_walk_vacuums_failed", 1)
		}
		for _, name := range kept {
			if _, _, ok := walk.FindVersion(snap, base, name); !ok {
				fail("kept-version-gone", fmt.Sprintf("with request %d of %d failing (if a GET), the vacuum (reported: %v) removed version %s, created after the cutoff", p, R, verr, name))
				return
			}
			if v := walk.Walk(snap, base, name); len(v.Problems) > 0 {
				fail("kept-version-broken", fmt.Sprintf("with request %d of %d failing (if a GET), the vacuum (reported: %v) left version %s, created after the cutoff, incomplete: %s", p, R, verr, name, v.Problems[0]))
				return
			}
		}
	}
}

// c10EmptyFork is a deterministic scenario for a vacuum next to an unmerged
// fork: writer a inserts and deletes a row; writer b opens on that version and
// inserts another row; a, which has not seen b, vacuums with a cutoff after
// its delete and before every version's creation, so a's version becomes an
// empty tree and stays current beside b's. A third writer merges the two
// (both merge orders are played, hook H2) and vacuums with a cutoff after
// everything: it shows b's row, every superseded version is gone from
// root/merged - the empty one too - and the same vacuum again changes nothing.
func c10EmptyFork(c *Case, r *Rng) {
	vclockInstall()
	st := newStore()
	defer dropStore(st)
	defer vclockDrop(st.Name)
	epn := r.PickInt([]int{2, 4, 4096})
	spec := func(store, client string) TableSpec {
		return TableSpec{Name: tname(c, "ef"+client), Cols: "k PRIMARY KEY, a", Store: store, Client: client, Prefix: "ef", EPN: epn}
	}
	fail := func(sig, msg string) {
		c.Violate("C10:empty-fork:"+sig, msg, map[string]interface{}{"create": spec(st.Name, "a").SQL()})
	}
	stmtErr := func(what string, err error) {
		fail("statement-error", what+": "+err.Error())
	}
	nrows := r.Range(1, 3)
	vclockSet(st.Name, 10)
	A := OpenConn("a")
	defer A.Close()
	sa := spec(st.Name, "a")
	if err := A.Create(sa); err != nil {
		stmtErr("create a", err)
		return
	}
	for i := 1; i <= nrows; i++ {
		vclockSet(st.Name, 10+i)
		A.SetWriteTime(i)
		if err := A.Exec("insert into "+sa.Name+" values (?,?)", i, "x"); err != nil {
			stmtErr("insert", err)
			return
		}
	}
	vclockSet(st.Name, 20)
	A.SetWriteTime(5)
	if err := A.Exec("delete from " + sa.Name); err != nil {
		stmtErr("delete", err)
		return
	}
	vclockSet(st.Name, 30)
	B := OpenConn("b")
	defer B.Close()
	sb := spec(st.Name, "b")
	if err := B.Create(sb); err != nil {
		stmtErr("create b", err)
		return
	}
	B.SetWriteTime(6)
	if err := B.Exec("insert into "+sb.Name+" values (?,?)", 100, "y"); err != nil {
		stmtErr("insert b", err)
		return
	}
	vclockSet(st.Name, 40)
	// cutoff second 8: after the deletes (write time 5), before every version (created at second 11 and later)
	if res, err := A.Rows("select vacuum_error from s3db_vacuum('"+sa.Name+"', ?)", tstr(8)); err != nil || len(res) != 1 || res[0] != "NULL" {
		fail("vacuum-error", fmt.Sprintf("vacuum by the first writer: %v %v", res, err))
		return
	}
	pre := st.Snapshot()
	base := walk.Base("ef")
	if cur := walk.VersionNames(pre, base, "current"); len(cur) != 2 {
		c.Count("empty_fork_scenarios_without_two_current_versions", 1)
		return
	}
	c.Count("empty_fork_scenarios", 1)
	for _, desc := range []bool{false, true} {
		s2 := newStore()
		s2.Restore(pre)
		vclockSet(s2.Name, 50)
		func() {
			defer dropStore(s2)
			defer vclockDrop(s2.Name)
			ep := fs3.Endpoint(s2.Name, "m")
			setPerm(ep, func(roots []string) []string {
				o := append([]string(nil), roots...)
				sort.Strings(o)
				if desc {
					for i, j := 0, len(o)-1; i < j; i, j = i+1, j-1 {
						o[i], o[j] = o[j], o[i]
					}
				}
				return o
			})
			defer setPerm(ep, nil)
			M := OpenConn("m")
			defer M.Close()
			sm := spec(s2.Name, "m")
			if err := M.Create(sm); err != nil {
				stmtErr("create m", err)
				return
			}
			rows, err := M.Rows("select * from " + sm.Name)
			if err != nil {
				stmtErr("select m", err)
				return
			}
			want := "i:100|t:y"
			if len(rows) != 1 || rows[0] != want {
				// what the merge shows is C01/C02's business; the scenario just is not the one planned
				c.Count("empty_fork_merges_with_other_rows", 1)
				return
			}
			vclockSet(s2.Name, 60)
			for pass := 1; pass <= 2; pass++ {
				l1 := s2.Listing(base)
				res, err := M.Rows("select vacuum_error from s3db_vacuum('"+sm.Name+"', ?)", tstr(1000))
				if err != nil || len(res) != 1 || res[0] != "NULL" {
					fail("vacuum-error", fmt.Sprintf("vacuum %d by the merging writer: %v %v", pass, res, err))
					return
				}
				c.Count("empty_fork_vacuums", 1)
				snap := s2.Snapshot()
				if cur := walk.VersionNames(snap, base, "current"); len(cur) != 1 {
					fail("current-versions", fmt.Sprintf("after the merging writer's vacuum %d there are %d current versions, want 1", pass, len(cur)))
					return
				}
				if left := walk.VersionNames(snap, base, "merged"); len(left) > 0 {
					fail("version-not-reclaimed", fmt.Sprintf("merge order descending=%v: after the merging writer's vacuum %d with a cutoff after everything (%s), %d superseded versions are still under root/merged (first: %s); the fork held an emptied version beside a one-row version", desc, pass, tstr(1000), len(left), left[0]))
					return
				}
				if pass == 2 {
					if d := firstDiff(l1, s2.Listing(base)); d != "" {
						fail("second-vacuum-changes-bucket", "repeating the same vacuum changed the bucket listing: "+d)
						return
					}
				}
				rows, err := M.Rows("select * from " + sm.Name)
				if err != nil || len(rows) != 1 || rows[0] != want {
					fail("rows-after-vacuum", fmt.Sprintf("after vacuum %d the table shows %v (err %v), want [%s]", pass, rows, err, want))
					return
				}
			}
		}()
		if c.Res.Status == "violated" {
			return
		}
	}
}
