package main

import (
	"fmt"
	"sort"
	"strings"
	"time"

	s3db "github.com/jrhy/s3db"
	v1proto "github.com/jrhy/s3db/proto/v1"
	"google.golang.org/protobuf/types/known/durationpb"
)

// c01SubSecond drives the row merge function itself with write times that
// have a sub-second part, which the SQL surface (s3db_conn write_time, one
// second resolution) cannot produce but the Go API (writetime.NewContext) and
// default-clock writes do. Every writer starts from the same stored row and
// applies its own UPDATE/DELETE/INSERT statements exactly as
// VirtualTable.Update/Delete/Insert build them (statement row merged into the
// stored row at the later of the two times); the writers' rows are then
// folded with MergeRows in every order, as mergeValues does for two versions
// of one key. All folds must show the same row.
const c01SubExtra = 24 // cases appended after the SQL cases, quick tier (x10 thorough)

type subEntry struct {
	t time.Time
	r *v1proto.Row
}

func subMerge(a, b subEntry) subEntry {
	// the order of the arguments is the one kv's value join uses: earlier entry first
	if b.t.Before(a.t) {
		a, b = b, a
	}
	out := b.t
	return subEntry{t: out, r: s3db.MergeRows(nil, a.t, a.r, b.t, b.r, out)}
}

func subVisible(e subEntry) string {
	if e.r.Deleted {
		return "(no row)"
	}
	var ks []string
	for k := range e.r.ColumnValues {
		ks = append(ks, k)
	}
	sort.Strings(ks)
	var sb strings.Builder
	for _, k := range ks {
		cv := e.r.ColumnValues[k]
		if cv == nil || cv.Value == nil {
			fmt.Fprintf(&sb, "%s=NULL ", k)
			continue
		}
		fmt.Fprintf(&sb, "%s=%s ", k, cv.Value.Text)
	}
	return sb.String()
}

func c01SubSecond(c *Case) {
	r := c.R
	base := time.Date(2024, 5, 1, 12, 0, 0, 0, time.UTC)
	cols := []string{"x", "y", "z"}
	var canon strings.Builder
	for round := 0; round < 40; round++ {
		nw := r.Range(3, 4)
		// distinct write times: i-th time is i*137ms plus a sub-millisecond part, shuffled over the statements
		nst := nw * 3
		slots := r.Perm(nst + 2)
		tm := func(i int) time.Time {
			return base.Add(time.Duration(slots[i]+1)*137*time.Millisecond + time.Duration(r.Intn(1000))*time.Microsecond + time.Duration(r.Intn(1000)))
		}
		// the shared stored row: an INSERT of all columns before every other statement
		t0 := base
		row0 := &v1proto.Row{ColumnValues: map[string]*v1proto.ColumnValue{}}
		for _, k := range cols {
			row0.ColumnValues[k] = s3db.ToColumnValue("0" + k)
		}
		start := subEntry{t: t0, r: s3db.MergeRows(nil, time.Time{}, &v1proto.Row{}, t0, row0, t0)}
		var log []string
		var ws []subEntry
		si := 0
		for w := 0; w < nw; w++ {
			cur := start
			n := r.Range(1, 3)
			for s := 0; s < n; s++ {
				t := tm(si)
				si++
				delT := s3db.DeleteUpdateTime(cur.t, cur.r.DeleteUpdateOffset)
				var st v1proto.Row
				what := ""
				switch x := r.Intn(10); {
				case x < 6: // UPDATE of one or two columns
					if cur.r.Deleted {
						what = "UPDATE (no row)"
						break
					}
					st.ColumnValues = map[string]*v1proto.ColumnValue{}
					for _, k := range cols {
						if r.Intn(2) == 0 || len(st.ColumnValues) == 0 && k == "z" {
							v := fmt.Sprintf("w%ds%d", w, s)
							st.ColumnValues[k] = s3db.ToColumnValue(v)
							what += k + "=" + v + " "
						}
					}
					st.DeleteUpdateOffset = durationpb.New(delT.Sub(t))
					what = "UPDATE " + what
				case x < 8: // DELETE
					st.Deleted = true
					what = "DELETE"
				default: // INSERT, accepted only over a delete that is not later
					if !cur.r.Deleted || delT.After(t) {
						what = "INSERT (refused)"
						break
					}
					st.ColumnValues = map[string]*v1proto.ColumnValue{}
					for _, k := range cols {
						st.ColumnValues[k] = s3db.ToColumnValue(fmt.Sprintf("w%di%d", w, s))
					}
					what = "INSERT"
				}
				log = append(log, fmt.Sprintf("w%d @+%v %s", w, t.Sub(base), what))
				if strings.HasSuffix(what, ")") {
					continue
				}
				out := cur.t
				if t.After(out) {
					out = t
				}
				cur = subEntry{t: out, r: s3db.MergeRows(nil, cur.t, cur.r, t, &st, out)}
			}
			ws = append(ws, cur)
		}
		fmt.Fprintf(&canon, "%s;", strings.Join(log, ","))
		// every fold order (left folds of all permutations; nw <= 4), and for four writers the pairwise grouping
		seen := map[string]string{}
		first := ""
		for _, p := range permutations(nw, r, 24) {
			acc := ws[p[0]]
			for _, i := range p[1:] {
				acc = subMerge(acc, ws[i])
			}
			v := subVisible(acc)
			c.Count("subsecond_folds", 1)
			if first == "" {
				first = v
			}
			if _, ok := seen[v]; !ok {
				seen[v] = fmt.Sprint(p)
			}
			if nw == 4 {
				g := subVisible(subMerge(subMerge(ws[p[0]], ws[p[1]]), subMerge(ws[p[2]], ws[p[3]])))
				c.Count("subsecond_folds", 1)
				if _, ok := seen[g]; !ok {
					seen[g] = fmt.Sprint(p) + " pairwise"
				}
			}
			// merging a version again changes nothing
			if again := subVisible(subMerge(acc, ws[p[0]])); again != v {
				c.Violate("C01:subsecond:remerge-differs", fmt.Sprintf("fold %v gives %q, merging its first version again gives %q; statements: %s", p, v, again, strings.Join(log, "; ")), log)
			}
		}
		c.Count("subsecond_rounds", 1)
		if len(seen) > 1 {
			c.Violate("C01:subsecond:folds-differ", fmt.Sprintf("the same %d rows folded in different orders show %v; statements: %s", nw, seen, strings.Join(log, "; ")), log)
			break
		}
		c.Distinct("subsecond_outcomes", map[bool]string{true: "deleted", false: "live"}[first == "(no row)"])
	}
	c.NonTrivial(canon.String())
	if c.Index%50 == 0 {
		c.Res.Sample = map[string]interface{}{"kind": "sub-second row merge folds", "first": canon.String()[:min(300, canon.Len())]}
	}
}
