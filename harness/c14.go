package main

import (
	"fmt"
	"sort"
	"strings"
	"sync"
	"time"

	"verifh/fs3"
	"verifh/walk"
)

func init() {
	register(&Check{
		ID:    "C14",
		Level: "fault_enumeration",
		Rule: "each case prepares a bucket (1-3 writers, 10-120 rows, entries_per_node 2,3,4,4096, 1-4 unmerged versions) and picks one target statement: read-write or read-only open (merge-on-open), full scan, range scan, point lookup, count, autocommit INSERT/UPDATE/DELETE, multi-statement COMMIT, s3db_refresh, s3db_changes query, s3db_vacuum; and raced forms of open and refresh in which, between the subject's LIST and its first read of a version, another connection merges and commits, so that every listed version has been retired and is read from its second location (root/merged/). " +
			"A failed write is, in half of the cases, simply tried again on the same connection and must then be complete in the bucket. Injected errors rotate through three forms: connection reset (no status), a 503 from the service, and a GET whose body ends half-way with io.ErrUnexpectedEOF. " +
			"A fault-free reference run records the target's result and its R storage requests; then for EVERY request position p<=R (60 seeded positions when R>60) the pre-state is restored and the target re-runs with (a) one failing request, (b) requests failing persistently from p until cleared, (b') request p and from then on every GET and LIST failing while PUT and DELETE go through (a read outage), and for 3 seeded positions (c) the request blocking until the connection's deadline (1-2 s ahead) expires. " +
			"Each run must end in an error or in exactly the reference result; a write reported successful must be visible to a fresh open once the fault is cleared; the worker process must stay alive and the statement must return (a statement that has not returned 30 s after its last storage request, or that issued more than 50x the reference request count, is a violation); afterwards the same connection (after s3db_refresh) and a new one must show all committed data and accept a write. " +
			"non-trivial = R>=4 and at least one faulted run returned an error and one completed; distinct = hash of (target, bucket shape, R)",
		Flavours: []string{"plain"},
		Cases: func(tier string) int {
			if tier == "thorough" {
				return 950
			}
			return 76
		},
		MinNT: func(tier string) int {
			if tier == "thorough" {
				return 300
			}
			return 20
		},
		Run:             runC14,
		HangIsViolation: true,
		CaseTimeout:     150 * time.Second,
		Assumptions: []string{
			"a transport fault is a non-retryable request error from the client; a deadline fault blocks the request until the connection's context is done",
			"a well-formed NoSuchKey answer is not a fault here (C09)",
			"positions are exhaustive per target up to R=60, not over targets",
		},
	})
}

var c14Targets = []string{"open-rw", "open-ro", "scan", "range", "point", "count", "insert", "update", "delete", "commit", "refresh", "changes", "vacuum", "open-rw", "insert-twin", "range",
	"open-ro-raced", "open-rw-raced", "refresh-raced"}

// onceGate runs f at the subject's first GET of a current version: between
// its LIST and its reads another connection merges and commits, so that every
// listed version has been retired and is read from its second location.
type onceGate struct {
	once sync.Once
	f    func()
}

func (g *onceGate) Wait(_ *fs3.Client, op, key string) {
	if op == fs3.OpGet && strings.Contains(key, "/root/current/") {
		g.once.Do(g.f)
	}
}
func (g *onceGate) Done(*fs3.Client, string, string) {}

type c14outcome struct {
	err  error
	rows []string
	hung bool
}

func runC14(c *Case) {
	r := c.R
	target := c14Targets[c.Index%len(c14Targets)]
	kind := strings.TrimSuffix(target, "-raced")
	raced := kind != target
	epn := []int{2, 3, 4, 4096}[r.Intn(4)]
	prefix := "p"
	base := walk.Base(prefix)
	cols := "k PRIMARY KEY, a, b"
	st := newStore()
	defer dropStore(st)
	nrows := r.Range(10, 120)
	nwriters := 1
	isOpen := strings.HasPrefix(target, "open") || kind == "refresh"
	if isOpen {
		nwriters = r.Range(2, 4)
	}
	// ------------------------------------------------------------ bucket
	{
		var conns []*Conn
		var tabs []string
		for i := 0; i < nwriters; i++ {
			cn := OpenConn(fmt.Sprintf("h%d", i))
			t := tname(c, fmt.Sprintf("h%d_", i))
			if err := cn.Create(TableSpec{Name: t, Cols: cols, Store: st.Name, Client: fmt.Sprintf("h%d", i), Prefix: prefix, EPN: epn}); err != nil {
				c.Violate("C14:setup", err.Error(), nil)
				return
			}
			conns = append(conns, cn)
			tabs = append(tabs, t)
		}
		conns[0].SetWriteTime(100)
		conns[0].Exec("begin")
		for i := 0; i < nrows; i++ {
			conns[0].Exec("insert into "+tabs[0]+" values (?,?,?)", int64(i*2), fmt.Sprintf("pre%d", i), int64(i))
		}
		conns[0].Exec("commit")
		for i := 1; i < nwriters; i++ {
			conns[i].Exec("select s3db_refresh('" + tabs[i] + "')")
		}
		ts := 100
		for round := 0; round < r.Range(1, 3); round++ {
			for i := 0; i < nwriters; i++ {
				ts++
				conns[i].SetWriteTime(ts)
				k := int64(r.Intn(nrows * 2))
				switch r.Intn(3) {
				case 0:
					conns[i].Exec("insert into "+tabs[i]+" values (?,?,?)", k|1, fmt.Sprintf("h%d.%d", i, round), nil)
				case 1:
					conns[i].Exec("update "+tabs[i]+" set b=? where k=?", fmt.Sprintf("u%d.%d", i, round), k&^1)
				default:
					conns[i].Exec("delete from "+tabs[i]+" where k=?", k&^1)
				}
			}
		}
		for _, cn := range conns {
			cn.Close()
		}
		if !isOpen {
			// one committed version, so that the subject's handle loads nodes lazily
			cn := OpenConn("sync")
			cn.Create(TableSpec{Name: tname(c, "sync"), Cols: cols, Store: st.Name, Client: "sync", Prefix: prefix, EPN: epn})
			cn.Close()
		}
	}
	pre := st.Snapshot()
	unmerged := len(walk.VersionNames(pre, base, "current"))
	v0 := ""
	if names := walk.VersionNames(pre, base, "merged"); len(names) > 0 {
		v0 = names[r.Intn(len(names))]
	}
	lo, hi := int64(r.Intn(nrows)), int64(nrows+r.Intn(nrows))
	pk := int64(r.Intn(nrows)) * 2
	var twins []int64
	for i := 0; i < 6; i++ {
		twins = append(twins, int64(r.Intn(nrows))*2)
	}
	desc := map[string]interface{}{"target": target, "entries_per_node": epn, "rows": nrows, "unmerged_versions": unmerged}
	fail := func(sig, msg string) { c.Violate("C14:"+target+":"+sig, msg, desc) }

	type subject struct {
		st   *fs3.Store
		cl   *fs3.Client
		conn *Conn
		t    string
		spec TableSpec
		// racerErr: what the racing connection of a -raced target got
		racerErr error
	}
	newSubject := func() (*subject, error) {
		s := &subject{st: newStore()}
		s.st.Restore(pre)
		s.cl = s.st.Client("subj")
		ep := fs3.Endpoint(s.st.Name, "subj")
		setPerm(ep, func(roots []string) []string { o := append([]string(nil), roots...); sort.Strings(o); return o })
		s.conn = OpenConn("subj")
		s.t = tname(c, "subj")
		s.spec = TableSpec{Name: s.t, Cols: cols, Store: s.st.Name, Client: "subj", Prefix: prefix, EPN: epn, ReadOnly: kind == "open-ro"}
		if !strings.HasPrefix(target, "open") {
			if err := s.conn.Create(s.spec); err != nil {
				return s, err
			}
			s.conn.SetWriteTime(500)
		}
		if raced {
			s.cl.SetGate(&onceGate{f: func() {
				cn := OpenConn("racer")
				defer cn.Close()
				t := tname(c, "racer")
				if err := cn.Create(TableSpec{Name: t, Cols: cols, Store: s.st.Name, Client: "racer", Prefix: prefix, EPN: epn}); err != nil {
					s.racerErr = err
					return
				}
				cn.SetWriteTime(450)
				s.racerErr = cn.Exec("insert into "+t+" values (?,?,?)", int64(-7), "racer", nil)
				c.Count("raced_retirements", 1)
			}})
		}
		return s, nil
	}
	closeSubject := func(s *subject) {
		setPerm(fs3.Endpoint(s.st.Name, "subj"), nil)
		s.conn.Close()
		dropStore(s.st)
	}
	// the target statement; returns rows for reads, nil rows for writes
	runTarget := func(s *subject) c14outcome {
		done := make(chan c14outcome, 1)
		go func() {
			var o c14outcome
			switch kind {
			case "open-rw", "open-ro":
				o.err = s.conn.Create(s.spec)
			case "scan":
				o.rows, o.err = s.conn.Rows("select * from " + s.t)
			case "range":
				o.rows, o.err = s.conn.Rows("select * from "+s.t+" where k >= ? and k < ?", lo, hi)
			case "point":
				o.rows, o.err = s.conn.Rows("select * from "+s.t+" where k = ?", pk)
			case "count":
				o.rows, o.err = s.conn.Rows("select count(*), min(k), max(k) from " + s.t)
			case "insert":
				o.err = s.conn.Exec("insert into "+s.t+" values (?,?,?)", int64(1000001), "new", nil)
			case "insert-twin":
				// the REAL of the same value as a stored INTEGER key: must be refused as a key conflict
				for _, n := range twins {
					err := s.conn.Exec("insert into "+s.t+" values (?,?,?)", float64(n), "twin", nil)
					if errClass(err) != "constraint-pk" {
						o.err = fmt.Errorf("insert of %v.0: %v", n, err)
						if err == nil {
							o.err = nil
							o.rows = append(o.rows, fmt.Sprintf("accepted twin %d", n))
						}
						break
					}
				}
			case "update":
				o.err = s.conn.Exec("update "+s.t+" set a='upd' where k >= ? and k < ?", lo, lo+6)
			case "delete":
				o.err = s.conn.Exec("delete from "+s.t+" where k = ?", pk)
			case "commit":
				if o.err = s.conn.Exec("begin"); o.err == nil {
					for i := 0; i < 5 && o.err == nil; i++ {
						o.err = s.conn.Exec("insert into "+s.t+" values (?,?,?)", int64(2000001+i), "tx", nil)
					}
					if o.err == nil {
						o.err = s.conn.Exec("update " + s.t + " set b='tx' where k < 6")
					}
					if o.err == nil {
						o.err = s.conn.Exec("commit")
					} else {
						s.conn.Exec("rollback")
					}
				}
			case "refresh":
				o.err = s.conn.Exec("select s3db_refresh('" + s.t + "')")
				if o.err == nil {
					o.rows, o.err = s.conn.Rows("select * from " + s.t)
				}
			case "changes":
				ct := s.t + "_chg"
				o.err = s.conn.Exec(fmt.Sprintf("create virtual table %s using s3db_changes (table='%s', from='[\"%s\"]')", ct, s.t, v0))
				if o.err == nil {
					o.rows, o.err = s.conn.Rows("select * from " + ct)
					s.conn.Exec("drop table " + ct)
				}
			case "vacuum":
				var res []string
				res, o.err = s.conn.Rows("select vacuum_error from s3db_vacuum('"+s.t+"', ?)", "2999-01-01 00:00:00")
				if o.err == nil && (len(res) != 1 || res[0] != "NULL") {
					o.err = fmt.Errorf("vacuum_error: %v", res)
				}
			}
			done <- o
		}()
		// quiescent non-return detection: logical (no requests in flight, none for 30 s
		// since the later of the statement's start and the store's last request)
		started := time.Now()
		tick := time.NewTicker(200 * time.Millisecond)
		defer tick.Stop()
		for {
			select {
			case o := <-done:
				return o
			case <-tick.C:
				last := s.st.LastActivity()
				if last.Before(started) {
					last = started
				}
				if s.cl.Inflight() == 0 && time.Since(last) > 30*time.Second {
					return c14outcome{hung: true}
				}
			}
		}
	}
	isWrite := map[string]bool{"insert": true, "update": true, "delete": true, "commit": true, "vacuum": true}[kind]
	if target == "changes" && v0 == "" {
		target = "scan"
		desc["target"] = target
	}
	postDump := func(s *subject, client string) ([]string, error) {
		cn := OpenConn(client)
		defer cn.Close()
		t := tname(c, client)
		if err := cn.Create(TableSpec{Name: t, Cols: cols, Store: s.st.Name, Client: client, Prefix: prefix, EPN: epn, ReadOnly: true}); err != nil {
			return nil, err
		}
		return cn.Rows("select * from " + t)
	}
	// ------------------------------------------------------------ reference
	ref, err := newSubject()
	if err != nil {
		closeSubject(ref)
		fail("reference-setup", err.Error())
		return
	}
	preDump, _ := postDump(ref, "predump")
	ref.cl.ResetCounters()
	ro := runTarget(ref)
	R, _ := ref.cl.Counters()
	if ro.err != nil || ro.hung {
		closeSubject(ref)
		fail("reference-run-failed", fmt.Sprintf("the target failed without any fault: %v", ro.err))
		return
	}
	if ref.racerErr != nil {
		closeSubject(ref)
		fail("reference-setup", "the racing connection failed: "+ref.racerErr.Error())
		return
	}
	refRows := ro.rows
	if strings.HasPrefix(target, "open") {
		refRows, _ = ref.conn.Rows("select * from " + ref.t)
	}
	refPost, _ := postDump(ref, "refpost")
	closeSubject(ref)
	desc["R"] = R
	c.MaxOf("requests_per_target", int64(R))
	c.Count("targets", 1)
	c.Distinct("target_kinds", target)
	if R == 0 {
		return
	}
	var positions []int
	if R <= 60 {
		for p := 1; p <= R; p++ {
			positions = append(positions, p)
		}
	} else {
		for _, i := range r.Perm(R)[:60] {
			positions = append(positions, i+1)
		}
		sort.Ints(positions)
	}
	type mode struct {
		name       string
		action     string
		persistent bool
		onlyReads  bool
	}
	// read-outage: request p fails, and from then on every GET and LIST, while PUT and DELETE go through
	modes := []mode{{"error-once", "error", false, false}, {"error-persistent", "error", true, false}, {"read-outage", "error", true, true}}
	blockPos := map[int]bool{}
	for _, i := range r.Perm(len(positions))[:min(3, len(positions))] {
		blockPos[positions[i]] = true
	}
	sawErr, sawOK := false, false
	for _, p := range positions {
		ms := modes
		if blockPos[p] {
			ms = append(append([]mode{}, modes...), mode{"deadline", "block", r.Bool(), false})
		}
		for _, m := range ms {
			if c.Res.Status == "violated" {
				return
			}
			s, err := newSubject()
			if err != nil {
				closeSubject(s)
				fail("setup", err.Error())
				return
			}
			where := fmt.Sprintf("%s at request %d of %d", m.name, p, R)
			if m.action == "block" {
				dl := time.Now().UTC().Add(2 * time.Second).Format("2006-01-02 15:04:05")
				if err := s.conn.Exec("update s3db_conn set deadline=?", dl); err != nil {
					closeSubject(s)
					fail("setup", err.Error())
					return
				}
			}
			s.cl.ResetCounters()
			s.cl.AddFault(fs3.Fault{AtReq: p, Action: m.action, Persistent: m.persistent, OnlyReads: m.onlyReads})
			o := runTarget(s)
			reqs, _ := s.cl.Counters()
			s.cl.ClearFaults()
			c.Count("faulted_runs", 1)
			c.Count("faulted_runs_"+m.name, 1)
			if o.hung {
				fail("hang:"+m.name, where+": the statement has not returned 30 s after its last storage request")
				return // the connection cannot be reused or closed
			}
			if reqs > 50*R+50 {
				fail("request-storm:"+m.name, fmt.Sprintf("%s: the statement issued %d requests (reference %d)", where, reqs, R))
			}
			if m.action == "block" {
				s.conn.Exec("update s3db_conn set deadline=NULL")
			}
			if o.err != nil {
				sawErr = true
				c.Count("runs_error", 1)
			} else {
				sawOK = true
				c.Count("runs_completed", 1)
				got := o.rows
				if strings.HasPrefix(target, "open") {
					got, err = s.conn.Rows("select * from " + s.t)
					if err != nil {
						fail("open-succeeded-but-unreadable:"+m.name, where+": the open reported success but the table cannot be read: "+err.Error())
					}
				}
				if !isWrite && c.Res.Status != "violated" {
					if d := firstDiff(refRows, got); d != "" {
						fail("wrong-answer:"+m.name, fmt.Sprintf("%s: the statement reported success with a result that differs from the fault-free one (reference vs got): %s", where, d))
					}
				}
			}
			if c.Res.Status == "violated" {
				closeSubject(s)
				return
			}
			// after the fault cleared: a fresh open shows committed data; an acknowledged write is there
			fd, err := postDump(s, "after")
			if err != nil {
				fail("unreadable-after-fault:"+m.name, where+": a new connection cannot read the table after the fault cleared: "+err.Error())
				closeSubject(s)
				return
			}
			isPre := firstDiff(preDump, fd) == ""
			isPost := firstDiff(refPost, fd) == ""
			if isWrite {
				if o.err == nil && !isPost {
					fail("acknowledged-write-lost:"+m.name, fmt.Sprintf("%s: the write reported success but a fresh open does not show it: %s", where, firstDiff(refPost, fd)))
				} else if !isPre && !isPost {
					fail("partial-write-visible:"+m.name, fmt.Sprintf("%s: a fresh open shows neither the old nor the new contents", where))
				}
			} else if !isPre && !isPost {
				fail("committed-data-lost:"+m.name, fmt.Sprintf("%s: a fresh open after the fault cleared differs from the committed contents: %s", where, firstDiff(preDump, fd)))
			}
			// same connection, no refresh: a statement that failed must have left no trace in the
			// connection's own view (reads: the committed contents; writes: old or new, never a mixture)
			if c.Res.Status != "violated" && !strings.HasPrefix(target, "open") && kind != "refresh" && target != "vacuum" && r.Intn(3) == 0 {
				d, err := s.conn.Rows("select * from " + s.t)
				if err == nil {
					own := firstDiff(preDump, d) == ""
					ownPost := firstDiff(refPost, d) == ""
					c.Count("same_connection_views_compared", 1)
					switch {
					case !isWrite && !own:
						fail("same-connection-view-changed:"+m.name, fmt.Sprintf("%s: after the faulted read the connection's own view differs from the committed contents: %s", where, firstDiff(preDump, d)))
					case isWrite && o.err != nil && !own && !ownPost:
						fail("failed-write-left-trace:"+m.name, fmt.Sprintf("%s: the statement failed, yet the connection's own view is neither the old nor the new contents: %s", where, firstDiff(preDump, d)))
					case isWrite && o.err != nil && ownPost && !isPost:
						fail("failed-write-visible-locally:"+m.name, fmt.Sprintf("%s: the statement failed and a fresh open shows the old contents, but the connection itself shows the new ones", where))
					case isWrite && o.err == nil && !ownPost:
						fail("acknowledged-write-not-visible-locally:"+m.name, fmt.Sprintf("%s: the write reported success but the connection's own view differs: %s", where, firstDiff(refPost, d)))
					}
				}
			}
			// the statement that failed is simply tried again on the same connection (same write time, so
			// the nodes it builds have the names of those whose upload failed): it must now go through,
			// and what it publishes must be complete
			if c.Res.Status != "violated" && isWrite && kind != "vacuum" && o.err != nil && isPre && r.Intn(2) == 0 {
				s.conn.Exec("rollback")
				o2 := runTarget(s)
				c.Count("retries_of_failed_writes", 1)
				if o2.hung {
					fail("hang:retry:"+m.name, where+": the retried statement has not returned 30 s after its last storage request")
					return
				}
				if o2.err != nil {
					fail("retry-fails:"+m.name, fmt.Sprintf("%s: after the fault cleared the same statement fails again on the same connection: %v", where, o2.err))
				} else if fd2, err := postDump(s, "afterretry"); err != nil {
					fail("retry-commit-unreadable:"+m.name, fmt.Sprintf("%s: after the retried statement succeeded a new connection cannot read the table: %v", where, err))
				} else if d := firstDiff(refPost, fd2); d != "" {
					fail("retry-commit-lost:"+m.name, fmt.Sprintf("%s: the retried statement reported success but a fresh open does not show its effect (expected vs fresh): %s", where, d))
				} else {
					snapF := s.st.Snapshot()
					own, _ := s.conn.Scalar("select s3db_version('" + s.t + "')")
					for _, n := range parseVersionList(own) {
						if v := walk.Walk(snapF, base, n); len(v.Problems) > 0 {
							fail("retry-commit-incomplete:"+m.name, fmt.Sprintf("%s: the version published by the retried statement is incomplete: %s", where, v.Problems[0]))
							break
						}
					}
				}
				closeSubject(s)
				continue
			}
			// same connection, still no refresh: it goes on writing; what it publishes must be complete
			if c.Res.Status != "violated" && !strings.HasPrefix(target, "open") && kind != "refresh" && r.Intn(3) == 0 {
				s.conn.SetWriteTime(700)
				e1 := s.conn.Exec("insert into "+s.t+" values (?,?,?)", int64(4000001), "follow-up", nil)
				s.conn.SetWriteTime(701)
				// also into a part of the tree far from the first one, and over a key deleted earlier
				e2 := s.conn.Exec("insert into "+s.t+" values (?,?,?)", int64(-4000001), "follow-up", nil)
				s.conn.SetWriteTime(702)
				s.conn.Exec("insert into "+s.t+" values (?,?,?)", pk, "re-insert", nil)
				c.Count("follow_up_writes_without_refresh", 1)
				if e1 != nil || e2 != nil {
					fail("follow-up-write-fails:"+m.name, fmt.Sprintf("%s: after the fault cleared the same connection cannot write: %v %v", where, e1, e2))
				} else {
					fd2, err := postDump(s, "afterfollowup")
					if err != nil {
						fail("follow-up-commit-unreadable:"+m.name, fmt.Sprintf("%s: after a follow-up write on the same connection a new connection cannot read the table: %v", where, err))
					} else {
						have := map[string]bool{}
						for _, row := range fd2 {
							have[row] = true
						}
						// everything committed before is still there (apart from what the target itself changed)
						base0 := fd
						missing := ""
						for _, row := range base0 {
							if !have[row] && !strings.HasPrefix(row, fmt.Sprintf("i:%d|", pk)) {
								missing = row
								break
							}
						}
						if missing != "" {
							fail("follow-up-commit-lost-rows:"+m.name, fmt.Sprintf("%s: after a follow-up write on the same connection a new connection no longer sees %q", where, missing))
						}
					}
					// the version this connection has just published (not other listed ones: a version whose
					// retirement failed earlier may stay listed after a vacuum reclaimed its nodes; opens skip it)
					snapF := s.st.Snapshot()
					own, _ := s.conn.Scalar("select s3db_version('" + s.t + "')")
					for _, n := range parseVersionList(own) {
						if v := walk.Walk(snapF, base, n); len(v.Problems) > 0 {
							var evs []string
							for _, ev := range s.st.Log() {
								if ev.Client == "subj" && (ev.Res != "ok" || ev.Op != fs3.OpGet) {
									evs = append(evs, fmt.Sprintf("%s %s %s", ev.Op, shortKey(ev.Key), ev.Res))
								}
							}
							if len(evs) > 40 {
								evs = evs[len(evs)-40:]
							}
							desc["subject_requests_tail"] = evs
							fail("follow-up-commit-incomplete:"+m.name, fmt.Sprintf("%s: the version published by a follow-up write is incomplete: %s", where, v.Problems[0]))
							break
						}
					}
				}
				closeSubject(s)
				continue
			}
			// same connection: usable again
			if c.Res.Status != "violated" && r.Intn(4) == 0 && !strings.HasPrefix(target, "open") {
				if err := s.conn.Exec("select s3db_refresh('" + s.t + "')"); err != nil {
					fail("same-connection-refresh:"+m.name, where+": s3db_refresh on the same connection fails after the fault cleared: "+err.Error())
				} else {
					d, err := s.conn.Rows("select * from " + s.t)
					if err != nil {
						fail("same-connection-read:"+m.name, where+": the same connection cannot read after refresh: "+err.Error())
					} else if firstDiff(fd, d) != "" {
						fail("same-connection-differs:"+m.name, where+": the same connection after refresh differs from a fresh open: "+firstDiff(fd, d))
					} else if kind != "open-ro" {
						s.conn.SetWriteTime(900)
						if err := s.conn.Exec("insert into "+s.t+" values (?,?,?)", int64(3000001), "after-fault", nil); err != nil {
							fail("same-connection-write:"+m.name, where+": the same connection cannot write after the fault cleared: "+err.Error())
						}
					}
					c.Count("same_connection_recoveries", 1)
				}
			}
			closeSubject(s)
		}
	}
	if R >= 4 && sawErr && sawOK {
		c.NonTrivial(fmt.Sprint(target, epn, nrows, unmerged, R))
	} else if R >= 4 && sawErr && (target == "point" || target == "count" || isWrite) {
		c.NonTrivial(fmt.Sprint(target, epn, nrows, unmerged, R))
	}
	if c.Index < 16 {
		c.Res.Sample = desc
	}
}
