package main

import (
	"fmt"
	"strings"
	"time"

	"verifh/fs3"
	"verifh/walk"
)

func init() {
	register(&Check{
		ID:    "C05",
		Level: "exploration",
		Rule: "random programs of 15-45 transactions on one connection with a native shadow table in the same SQLite transaction: each transaction has 0-6 single-row statements (including failing ones: duplicate key, NULL key, NOT NULL) with in-transaction SELECTs compared against the shadow, and ends in COMMIT, ROLLBACK, or a COMMIT that hits an injected storage error at a seeded request of the commit; failing autocommit statements in between. " +
			"Monitors: dump and root/ listing before BEGIN vs after any rollback; request log: exactly one version PUT per committing transaction that changed something, none otherwise; decoded stamps of the rows a transaction touched carry one time (default) or the explicit write_time (a third of the programs also set s3db_conn.deadline far in the future, before or after the write time); the connection stays usable after a failed commit. Trees of 1-4 levels (entries_per_node 2,3,4096, pre-loaded). " +
			"non-trivial = the program contained at least one rollback after a mutating statement and one successful multi-statement commit; distinct = hash of the program",
		Flavours: []string{"plain"},
		Cases: func(tier string) int {
			if tier == "thorough" {
				return 3000
			}
			return 400
		},
		MinNT: func(tier string) int {
			if tier == "thorough" {
				return 1500
			}
			return 150
		},
		Run: runC05,
		Assumptions: []string{
			"statement-level atomicity of multi-row statements inside explicit transactions is not demanded (no savepoint support; SQLite documents the partial effects), so failing statements in transactions are single-row",
			"visibility of a commit to other openers at each request boundary is enumerated by C04",
			"garbage node objects left by a failed commit are allowed; only root/ must be unchanged",
		},
	})
}

func runC05(c *Case) {
	r := c.R
	epn := []int{2, 3, 4096, 4}[c.Index%4]
	explicit := r.Intn(3) == 0
	st := newStore()
	defer dropStore(st)
	conn := OpenConn("w")
	defer conn.Close()
	vt := tname(c, "v")
	nt := "n_" + vt
	spec := TableSpec{Name: vt, Cols: "k PRIMARY KEY, a NOT NULL, b", Store: st.Name, Client: "w", Prefix: "p", EPN: epn}
	if err := conn.Create(spec); err != nil {
		c.Violate("C05:create", err.Error(), nil)
		return
	}
	conn.Exec(fmt.Sprintf("create table %s(k primary key, a not null, b) without rowid", nt))
	base := walk.Base("p")
	client := st.Client("w")
	var prog []string
	fail := func(sig, msg string) {
		tail := prog
		if len(tail) > 70 {
			tail = tail[len(tail)-70:]
		}
		c.Violate("C05:"+sig, msg, map[string]interface{}{"create": spec.SQL(), "explicit_write_time": explicit, "program_tail": tail})
	}
	nkeys := r.Range(30, 160)
	if r.Bool() {
		// small tables have sparse root nodes, where shared-node bugs show
		nkeys = r.Range(6, 30)
	}
	tsec := 100
	// a deadline far in the future changes nothing about what is written or when it is stamped
	withDeadline := r.Intn(3) == 0
	setDeadline := func() {
		if withDeadline {
			if err := conn.Exec("update s3db_conn set deadline='2999-01-01 00:00:00'"); err != nil {
				fail("set-deadline", err.Error())
			}
		}
	}
	if r.Bool() {
		setDeadline()
	}
	setTime := func() {
		if explicit {
			tsec += r.Range(1, 5)
			conn.SetWriteTime(tsec)
		}
	}
	defer func() {
		if withDeadline {
			c.Count("programs_with_far_deadline", 1)
		}
	}()
	// preload
	setTime()
	setDeadline()
	conn.Exec("begin")
	for i := 0; i < nkeys; i += 3 {
		conn.Exec("insert into "+vt+" values (?,?,?)", int64(i), "pre", int64(i))
		conn.Exec("insert into "+nt+" values (?,?,?)", int64(i), "pre", int64(i))
	}
	if err := conn.Exec("commit"); err != nil {
		fail("preload", err.Error())
		return
	}
	// entries_per_node only matters for an empty tree: a connection that re-opens the table with
	// another (or no) value must behave the same
	if r.Intn(2) == 0 {
		conn.Exec("drop table " + vt)
		spec.EPN = []int{0, 0, 4096, 16}[r.Intn(4)]
		if err := conn.Create(spec); err != nil {
			fail("reopen", "re-create with another entries_per_node failed: "+err.Error())
			return
		}
		prog = append(prog, "-- re-opened with "+spec.SQL())
		c.Count("reopened_with_other_entries_per_node", 1)
	}
	// a second s3db table (other prefix) joins some of the transactions
	vt2 := tname(c, "u")
	nt2 := "n_" + vt2
	spec2 := TableSpec{Name: vt2, Cols: "k PRIMARY KEY, a, b", Store: st.Name, Client: "w2", Prefix: "p2", EPN: epn}
	if err := conn.Create(spec2); err != nil {
		fail("create", err.Error())
		return
	}
	conn.Exec(fmt.Sprintf("create table %s(k primary key, a, b) without rowid", nt2))
	base2 := walk.Base("p2")
	dump2 := func(where string) bool {
		dv, ev := conn.Rows("select * from " + vt2 + " order by k")
		dn, _ := conn.Rows("select * from " + nt2 + " order by k")
		if ev != nil {
			fail("dump-error", where+" (second table): "+ev.Error())
			return false
		}
		if d := firstDiff(dn, dv); d != "" {
			fail("second-table-differs-from-shadow:"+strings.Fields(where)[0], fmt.Sprintf("%s: the second table of the transaction differs from its native shadow: %s", where, d))
			return false
		}
		return true
	}
	dumpBoth := func(where string) ([]string, bool) {
		dv, ev := conn.Rows("select * from " + vt + " order by k")
		dn, _ := conn.Rows("select * from " + nt + " order by k")
		c.Count("dumps_vs_shadow", 1)
		if ev != nil {
			fail("dump-error", where+": "+ev.Error())
			return nil, false
		}
		if d := firstDiff(dn, dv); d != "" {
			sig := "differs-from-shadow:" + strings.Fields(where)[0]
			fail(sig, fmt.Sprintf("%s: table differs from the native shadow (native vs s3db): %s", where, d))
			return dv, false
		}
		return dv, true
	}
	rootListing := func() []string { return st.Listing(base + "root/") }
	stmtNo := 0
	// one statement on both tables; returns (class, mutated)
	both := func(q string, args ...interface{}) (string, bool) {
		stmtNo++
		qv := strings.ReplaceAll(q, "%T", vt)
		qn := strings.ReplaceAll(q, "%T", nt)
		var as []string
		for _, a := range args {
			as = append(as, lit(a))
		}
		prog = append(prog, q+"  -- "+strings.Join(as, ","))
		nv, ev := conn.ExecN(qv, args...)
		_, en := conn.ExecN(qn, args...)
		cv, cn := errClass(ev), errClass(en)
		if cv != cn {
			fail("outcome:"+cn+"->"+cv, fmt.Sprintf("statement outcome differs: native %v, s3db %v: %s", en, ev, prog[len(prog)-1]))
			return cv, false
		}
		return cv, cv == "ok" && nv > 0
	}
	genStmt := func() (string, []interface{}) {
		k := int64(r.Intn(nkeys))
		tag := fmt.Sprintf("s%d", stmtNo)
		switch x := r.Intn(100); {
		case x < 35:
			return "insert into %T values (?,?,?)", []interface{}{k, tag, int64(stmtNo)}
		case x < 40:
			return "insert into %T values (?,?,?)", []interface{}{nil, tag, int64(stmtNo)} // NULL key
		case x < 45:
			return "insert into %T values (?,?,?)", []interface{}{k, nil, int64(stmtNo)} // NOT NULL
		case x < 65:
			return "update %T set b=? where k=?", []interface{}{tag, k}
		case x < 75:
			return "update %T set a=?, b=? where k=?", []interface{}{tag, nil, k}
		case x < 80:
			return "update %T set a=? where k=?", []interface{}{nil, k} // NOT NULL
		default:
			return "delete from %T where k=?", []interface{}{k}
		}
	}
	ntx := r.Range(15, 45)
	sawRollbackAfterMutation, sawMultiCommit := false, false
	for tx := 0; tx < ntx && c.Res.Status != "violated"; tx++ {
		d0, ok := dumpBoth("before BEGIN")
		if !ok {
			return
		}
		l0 := rootListing()
		// autocommit statement (possibly failing) now and then
		if r.Intn(4) == 0 {
			setTime()
			q, args := genStmt()
			cls, mutated := both(q, args...)
			if cls != "ok" {
				c.Count("failing_autocommit_statements", 1)
				d1, ok := dumpBoth("after-failed-autocommit statement")
				if !ok {
					return
				}
				if d := firstDiff(d0, d1); d != "" {
					fail("failed-statement-changed-rows", "a refused autocommit statement changed the visible rows: "+d)
					return
				}
				if d := firstDiff(l0, rootListing()); d != "" {
					fail("failed-statement-new-version", "a refused autocommit statement changed root/: "+d)
					return
				}
			}
			_ = mutated
			continue
		}
		prevT := tsec
		setTime()
		t0 := time.Now()
		n0 := st.LogLen()
		coldSecond := r.Intn(5) == 0
		if coldSecond {
			// the second table is re-created, so that joining the transaction has to read its tree
			conn.Exec("drop table " + vt2)
			if err := conn.Create(spec2); err != nil {
				fail("reopen", "re-create of the second table failed: "+err.Error())
				return
			}
		}
		prog = append(prog, "BEGIN")
		if err := conn.Exec("begin"); err != nil {
			fail("begin-error", err.Error())
			return
		}
		ns := r.Range(0, 6)
		mutated := false
		touched := map[int64]bool{}
		touched2 := map[int64]bool{}
		for i := 0; i < ns && c.Res.Status != "violated"; i++ {
			if i > 0 && r.Intn(4) == 0 {
				// the second table joins the running transaction
				k2 := int64(r.Intn(40))
				q2 := "insert into %U values (?,?,?)"
				if coldSecond {
					// its first read fails: the statement fails, the transaction goes on without it
					st.Client("w2").AddFault(fs3.Fault{Op: fs3.OpGet, Action: "error"})
				}
				e1 := conn.Exec(strings.ReplaceAll(q2, "%U", vt2), k2, fmt.Sprintf("u%d", stmtNo), nil)
				if coldSecond {
					st.Client("w2").ClearFaults()
					coldSecond = false
					if e1 != nil && fs3.IsInjected(e1) {
						c.Count("second_table_failed_to_join", 1)
						prog = append(prog, fmt.Sprintf("insert into second table k=%d -> %v (injected)", k2, e1))
						stmtNo++
						continue
					}
				}
				e2 := conn.Exec(strings.ReplaceAll(q2, "%U", nt2), k2, fmt.Sprintf("u%d", stmtNo), nil)
				stmtNo++
				prog = append(prog, fmt.Sprintf("insert into second table k=%d -> %v", k2, e1))
				if errClass(e1) != errClass(e2) {
					fail("outcome:second-table", fmt.Sprintf("second table: native %v, s3db %v", e2, e1))
					return
				}
				if e1 == nil {
					touched2[k2] = true
					c.Count("statements_on_second_table", 1)
				}
				continue
			}
			q, args := genStmt()
			cls, m := both(q, args...)
			if m {
				mutated = true
				if k, ok := args[len(args)-1].(int64); ok && strings.HasPrefix(q, "update") || strings.HasPrefix(q, "delete") {
					touched[k] = true
				} else if k, ok := args[0].(int64); ok {
					touched[k] = true
				}
			}
			_ = cls
			if r.Intn(3) == 0 {
				// read your own writes
				if _, ok := dumpBoth("in-transaction read"); !ok {
					return
				}
				c.Count("in_tx_reads", 1)
			}
		}
		if c.Res.Status == "violated" {
			return
		}
		end := r.Intn(10)
		switch {
		case end < 5: // COMMIT
			prog = append(prog, "COMMIT")
			if err := conn.Exec("commit"); err != nil {
				fail("commit-error", "COMMIT failed without any fault: "+err.Error())
				return
			}
			t1 := time.Now()
			vputs, nputs := 0, 0
			for _, ev := range st.LogSince(n0) {
				if ev.Op == fs3.OpPut && strings.HasPrefix(ev.Key, base+"root/current/") {
					vputs++
				}
				if ev.Op == fs3.OpPut && strings.HasPrefix(ev.Key, base+"node/") {
					nputs++
				}
			}
			c.Count("commits", 1)
			if _, ok := dumpBoth("after COMMIT"); !ok {
				return
			}
			if !dump2("after COMMIT") {
				return
			}
			d1, _ := conn.Rows("select * from " + vt + " order by k")
			changed := firstDiff(d0, d1) != ""
			if changed && vputs != 1 {
				fail("version-puts", fmt.Sprintf("a COMMIT that changed the table wrote %d version objects (want exactly 1)", vputs))
				return
			}
			if !mutated && (vputs != 0 || nputs != 0) {
				fail("empty-commit-writes", fmt.Sprintf("a transaction without any effective statement wrote %d version and %d node objects", vputs, nputs))
				return
			}
			if mutated && ns >= 2 {
				sawMultiCommit = true
			}
			// one write time per transaction
			if mutated {
				snap := st.Snapshot()
				names := walk.VersionNames(snap, base, "current")
				if len(names) == 1 {
					v := walk.Walk(snap, base, names[0])
					stamps := map[int64]bool{}
					newest := int64(0)
					for i := range v.Entries {
						e := &v.Entries[i]
						if e.Key.Type != 1 || !touched[e.Key.Int] {
							continue
						}
						cand := []int64{e.DeleteTime()}
						for _, col := range []string{"a", "b"} {
							if t, ok := e.ColTime(col); ok {
								cand = append(cand, t)
							}
						}
						for _, t := range cand {
							if t > newest {
								newest = t
							}
							if explicit {
								if t > tnanos(prevT) {
									stamps[t] = true
								}
							} else if t >= t0.UnixNano() {
								stamps[t] = true
							}
						}
					}
					// the second table's rows carry the same stamp
					if len(touched2) > 0 {
						snap2 := st.Snapshot()
						if n2 := walk.VersionNames(snap2, base2, "current"); len(n2) == 1 {
							v2 := walk.Walk(snap2, base2, n2[0])
							for i := range v2.Entries {
								e := &v2.Entries[i]
								if e.Key.Type != 1 || !touched2[e.Key.Int] {
									continue
								}
								t := e.DeleteTime()
								if (explicit && t > tnanos(prevT)) || (!explicit && t >= t0.UnixNano()) {
									stamps[t] = true
								}
								if t > newest {
									newest = t
								}
							}
							c.Count("two_table_transactions_checked", 1)
						}
					}
					c.Count("tx_stamp_sets_checked", 1)
					if !explicit && changed && newest < t0.UnixNano() {
						fail("tx-stamp-stale", fmt.Sprintf("the newest stamp on the rows this transaction changed is %s, older than its BEGIN (%s): the transaction did not take a write time of its own", time.Unix(0, newest).UTC().Format(time.RFC3339Nano), t0.UTC().Format(time.RFC3339Nano)))
						return
					}
					if len(stamps) > 1 {
						fail("several-write-times-in-one-tx", fmt.Sprintf("the rows touched by one transaction carry %d different new stamps", len(stamps)))
						return
					}
					for t := range stamps {
						if explicit && t != tnanos(tsec) {
							fail("tx-stamp-not-write-time", fmt.Sprintf("stamp %d differs from the explicit write_time %d", t, tnanos(tsec)))
							return
						}
						if !explicit && (t < t0.UnixNano() || t > t1.UnixNano()) {
							fail("tx-stamp-outside-bracket", "the transaction's stamp lies outside the harness's BEGIN..COMMIT bracket")
							return
						}
					}
				}
			}
		case end < 8: // ROLLBACK
			prog = append(prog, "ROLLBACK")
			if err := conn.Exec("rollback"); err != nil {
				fail("rollback-error", err.Error())
				return
			}
			c.Count("rollbacks", 1)
			if mutated {
				sawRollbackAfterMutation = true
			}
			d1, ok := dumpBoth("after-rollback ROLLBACK")
			if !ok {
				return
			}
			if !dump2("after-rollback ROLLBACK") {
				return
			}
			if d := firstDiff(d0, d1); d != "" {
				fail("rollback-changed-rows", "rows after ROLLBACK differ from the rows before BEGIN: "+d)
				return
			}
			if d := firstDiff(l0, rootListing()); d != "" {
				fail("rollback-new-version", "root/ listing changed across a rolled-back transaction: "+d)
				return
			}
		default: // COMMIT hitting a storage error
			if !mutated {
				conn.Exec("commit")
				prog = append(prog, "COMMIT (nothing to do)")
				continue
			}
			client.ResetCounters()
			at := r.Range(1, 3)
			client.AddFault(fs3.Fault{AtReq: at, Action: "error", Persistent: r.Bool()})
			prog = append(prog, fmt.Sprintf("COMMIT with storage error at request %d of the commit", at))
			err := conn.Exec("commit")
			client.ClearFaults()
			c.Count("faulted_commits", 1)
			if err == nil {
				// the fault may not have been reached (commit needed fewer requests),
				// or it hit the retirement of the parent version, whose failure the
				// commit protocol tolerates (the successor is already in place)
				reqs, _ := client.Counters()
				tolerated := false
				for _, ev := range st.LogSince(n0) {
					if ev.Res == "fault" && (strings.HasPrefix(ev.Key, base+"root/merged/") || (ev.Op == fs3.OpDel && strings.HasPrefix(ev.Key, base+"root/current/"))) {
						tolerated = true
					}
				}
				if tolerated {
					c.Count("faults_on_retirement_tolerated", 1)
				}
				if reqs >= at && !tolerated {
					fail("faulted-commit-succeeded", fmt.Sprintf("COMMIT reported success although request %d of it failed", at))
					return
				}
				if _, ok := dumpBoth("after COMMIT"); !ok {
					return
				}
				continue
			}
			sawRollbackAfterMutation = true
			d1, ok := dumpBoth("after-failed-commit")
			if !ok {
				return
			}
			if !dump2("after-failed-commit") {
				return
			}
			if d := firstDiff(d0, d1); d != "" {
				fail("failed-commit-changed-rows", "rows after a failed COMMIT differ from the rows before BEGIN: "+d)
				return
			}
			if d := firstDiff(l0, rootListing()); d != "" {
				fail("failed-commit-new-version", "root/ listing changed although the COMMIT failed: "+d)
				return
			}
			// usable again
			setTime()
			if cls, _ := both("insert into %T values (?,?,?)", int64(100000+tx), "after-fault", nil); cls != "ok" {
				fail("unusable-after-failed-commit", "the connection refuses writes after a failed COMMIT")
				return
			}
			c.Count("recovered_after_failed_commit", 1)
		}
	}
	if c.Res.Status == "violated" {
		return
	}
	// a fresh opener agrees with the shadow at the end
	c2 := OpenConn("fresh")
	defer c2.Close()
	ft := tname(c, "f")
	s2 := spec
	s2.Name, s2.Client, s2.ReadOnly = ft, "fresh", true
	if err := c2.Create(s2); err != nil {
		fail("fresh-open", err.Error())
		return
	}
	df, err := c2.Rows("select * from " + ft + " order by k")
	dn, _ := conn.Rows("select * from " + nt + " order by k")
	if err != nil {
		fail("fresh-open", err.Error())
	} else if d := firstDiff(dn, df); d != "" {
		fail("fresh-differs", "a fresh opener differs from the shadow at the end: "+d)
	}
	snap := st.Snapshot()
	for _, n := range walk.VersionNames(snap, base, "current") {
		if rt, err := walk.ParseRoot(snap[base+"root/current/"+n]); err == nil {
			c.MaxOf("tree_levels", int64(rt.Height)+1)
		}
	}
	c.Count("statements", int64(stmtNo))
	if sawRollbackAfterMutation && sawMultiCommit {
		c.NonTrivial(fmt.Sprint(epn, explicit, prog))
	}
	if c.Index < 4 {
		tail := prog
		if len(tail) > 16 {
			tail = tail[:16]
		}
		c.Res.Sample = map[string]interface{}{"entries_per_node": epn, "explicit_write_time": explicit, "program": tail}
	}
}
