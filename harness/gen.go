package main

import (
	"fmt"
	"math"
)

// keyPool builds a pool of n distinct key values over the four storage
// classes, avoiding numerically equal INT/REAL pairs and the empty string
// (those belong to C07/C08).
func keyPool(r *Rng, n int, classes string) []interface{} {
	var out []interface{}
	seen := map[string]bool{}
	add := func(v interface{}) {
		s := lit(v)
		if !seen[s] {
			seen[s] = true
			out = append(out, v)
		}
	}
	for len(out) < n {
		cl := classes[r.Intn(len(classes))]
		switch cl {
		case 'i':
			switch r.Intn(10) {
			case 0:
				add(int64(math.MaxInt64) - int64(r.Intn(3)))
			case 1:
				add(int64(math.MinInt64) + int64(r.Intn(3)))
			case 2:
				add(int64(-r.Intn(50)))
			default:
				add(int64(r.Intn(3 * n)))
			}
		case 'r':
			// non-integral, so never numerically equal to an INT key
			switch r.Intn(8) {
			case 0:
				add(math.Inf(1))
			case 1:
				add(math.Inf(-1))
			case 2:
				add(float64(r.Intn(1000))*1e15 + 0.5e15*1.0000001)
			default:
				add(float64(r.Intn(3*n)) + 0.25 + float64(r.Intn(3))*0.25)
			}
		case 't':
			pre := []string{"a", "ab", "abc", "B", "zz", "é", "k", "K", "0", "10", "9"}
			add(fmt.Sprintf("%s%d", pre[r.Intn(len(pre))], r.Intn(n)))
		case 'b':
			b := r.Bytes(r.Range(1, 4))
			if r.Intn(4) == 0 {
				b[0] = 0xff
			}
			if r.Intn(4) == 0 {
				b[0] = 0
			}
			add(b)
		}
	}
	return out
}

// randVal draws a non-key column value of any storage class (NULL included).
func randVal(r *Rng, tag string) interface{} {
	switch r.Intn(9) {
	case 0:
		return nil
	case 1:
		return int64(r.Intn(1000)) - 500
	case 2:
		return float64(r.Intn(1000))/8 + 0.125
	case 3:
		return r.Bytes(r.Range(1, 5))
	case 4:
		return int64(r.U64())
	default:
		return tag
	}
}
