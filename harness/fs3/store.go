// Package fs3 is the instrumented in-memory object store the checks run the
// real s3db code against. It implements kv.S3Interface per client, records
// every request, evaluates online assertions under its own mutex, injects
// faults and (optionally) gates requests through a deterministic scheduler.
package fs3

import (
	"bytes"
	"context"
	"crypto/sha256"
	"encoding/hex"
	"errors"
	"fmt"
	"io"
	"sort"
	"strings"
	"sync"
	"time"

	"github.com/aws/aws-sdk-go/aws"
	"github.com/aws/aws-sdk-go/aws/awserr"
	"github.com/aws/aws-sdk-go/aws/request"
	"github.com/aws/aws-sdk-go/service/s3"
)

const (
	OpGet  = "GET"
	OpPut  = "PUT"
	OpDel  = "DEL"
	OpList = "LIST"
)

// Event is one request as it took effect (or failed) in the store.
type Event struct {
	Seq    int    `json:"seq"`
	Client string `json:"c"`
	Op     string `json:"op"`
	Key    string `json:"k"`
	Size   int    `json:"n,omitempty"`
	Sha    string `json:"sha,omitempty"`
	Res    string `json:"r"` // ok | nosuchkey | fault | ctx | crashed
	RO     bool   `json:"ro,omitempty"`
}

// Fault describes one injected fault on a client.
type Fault struct {
	AtReq      int    // fire on the n-th request of the client (1-based); 0 = any
	AtMut      int    // fire on the n-th mutating request (PUT/DEL) (1-based); 0 = any
	Op         string // "" = any
	KeyContain string // "" = any
	Action     string // "error" | "block" | "crash-before" | "crash-after" | "delay"
	Persistent bool   // keeps firing for every later request once triggered
	Skip       int    // let this many matching requests pass before firing
	OnlyReads  bool   // with Persistent: once triggered, only GET and LIST requests keep failing (a read outage)
	Delay      time.Duration
	// Kind is how an "error" fault surfaces: "reset" (connection reset, no
	// status), "5xx" (a 503 from the service), "cut" (a GET whose body ends
	// early with io.ErrUnexpectedEOF; other requests get "5xx"). "" rotates
	// through the three by the number of faults the client has fired.
	Kind  string
	fired bool
}

// Store is one bucket.
type Store struct {
	Name string

	mu       sync.Mutex
	objs     map[string][]byte
	deleted  map[string]string // key -> sha of last deleted content
	log      []Event
	seq      int
	clients  map[string]*Client
	asserts  []string
	PageSize int // LIST page size; 0 = unlimited

	// LogEnabled can be turned off for bulk loading.
	LogDisabled bool

	lastActivity time.Time
}

func NewStore(name string) *Store {
	return &Store{
		Name:    name,
		objs:    map[string][]byte{},
		deleted: map[string]string{},
		clients: map[string]*Client{},
	}
}

// Client returns the named client, creating it when needed.
func (s *Store) Client(name string) *Client {
	s.mu.Lock()
	defer s.mu.Unlock()
	c, ok := s.clients[name]
	if !ok {
		c = &Client{store: s, Name: name}
		s.clients[name] = c
	}
	return c
}

// Snapshot is an immutable copy of the bucket contents.
type Snapshot map[string][]byte

func (s *Store) Snapshot() Snapshot {
	s.mu.Lock()
	defer s.mu.Unlock()
	out := make(Snapshot, len(s.objs))
	for k, v := range s.objs {
		out[k] = v
	}
	return out
}

func (s *Store) Restore(snap Snapshot) {
	s.mu.Lock()
	defer s.mu.Unlock()
	s.objs = make(map[string][]byte, len(snap))
	for k, v := range snap {
		s.objs[k] = v
	}
}

// PutRaw writes an object without logging or assertions (harness use).
func (s *Store) PutRaw(key string, b []byte) {
	s.mu.Lock()
	defer s.mu.Unlock()
	s.objs[key] = b
}

// DelRaw deletes an object without logging (harness use).
func (s *Store) DelRaw(key string) {
	s.mu.Lock()
	defer s.mu.Unlock()
	delete(s.objs, key)
}

func (s *Store) GetRaw(key string) ([]byte, bool) {
	s.mu.Lock()
	defer s.mu.Unlock()
	b, ok := s.objs[key]
	return b, ok
}

// Keys lists all keys with the prefix, sorted.
func (s *Store) Keys(prefix string) []string {
	s.mu.Lock()
	defer s.mu.Unlock()
	return s.keysLocked(prefix)
}

func (s *Store) keysLocked(prefix string) []string {
	var out []string
	for k := range s.objs {
		if strings.HasPrefix(k, prefix) {
			out = append(out, k)
		}
	}
	sort.Strings(out)
	return out
}

// Listing returns "key sha" lines for all keys under the prefix.
func (s *Store) Listing(prefix string) []string {
	s.mu.Lock()
	defer s.mu.Unlock()
	ks := s.keysLocked(prefix)
	out := make([]string, len(ks))
	for i, k := range ks {
		out[i] = k + " " + ShaHex(s.objs[k])
	}
	return out
}

func (s *Store) Log() []Event {
	s.mu.Lock()
	defer s.mu.Unlock()
	return append([]Event(nil), s.log...)
}

// LogLen is the number of events so far (a cheap cursor for LogSince).
func (s *Store) LogLen() int {
	s.mu.Lock()
	defer s.mu.Unlock()
	return len(s.log)
}

func (s *Store) LogSince(n int) []Event {
	s.mu.Lock()
	defer s.mu.Unlock()
	if n > len(s.log) {
		n = len(s.log)
	}
	return append([]Event(nil), s.log[n:]...)
}

// Asserts returns the online assertion failures seen so far.
func (s *Store) Asserts() []string {
	s.mu.Lock()
	defer s.mu.Unlock()
	return append([]string(nil), s.asserts...)
}

func (s *Store) LastActivity() time.Time {
	s.mu.Lock()
	defer s.mu.Unlock()
	return s.lastActivity
}

func ShaHex(b []byte) string {
	h := sha256.Sum256(b)
	return hex.EncodeToString(h[:8])
}

// Gate lets a scheduler decide when a request may proceed. Wait is called
// outside the store mutex, before the request takes effect; Done after it.
type Gate interface {
	Wait(c *Client, op, key string)
	Done(c *Client, op, key string)
}

// Client is one named user of the store.
type Client struct {
	store *Store
	Name  string

	mu       sync.Mutex
	faults   []*Fault
	reqs     int
	muts     int
	nfault   int
	crashed  bool
	gate     Gate
	jitter   func() time.Duration
	inflight int
}

func (c *Client) Store() *Store { return c.store }

func (c *Client) SetGate(g Gate) {
	c.mu.Lock()
	c.gate = g
	c.mu.Unlock()
}

// SetJitter installs a delay generator invoked before every request, outside
// all locks.
func (c *Client) SetJitter(f func() time.Duration) {
	c.mu.Lock()
	c.jitter = f
	c.mu.Unlock()
}

func (c *Client) AddFault(f Fault) {
	c.mu.Lock()
	ff := f
	c.faults = append(c.faults, &ff)
	c.mu.Unlock()
}

// ClearFaults removes all faults and the crashed state.
func (c *Client) ClearFaults() {
	c.mu.Lock()
	c.faults = nil
	c.crashed = false
	c.mu.Unlock()
}

// ResetCounters zeroes the request and mutation counters.
func (c *Client) ResetCounters() {
	c.mu.Lock()
	c.reqs, c.muts = 0, 0
	c.mu.Unlock()
}

func (c *Client) Counters() (reqs, muts int) {
	c.mu.Lock()
	defer c.mu.Unlock()
	return c.reqs, c.muts
}

func (c *Client) Inflight() int {
	c.mu.Lock()
	defer c.mu.Unlock()
	return c.inflight
}

func (c *Client) Crashed() bool {
	c.mu.Lock()
	defer c.mu.Unlock()
	return c.crashed
}

// View is what is handed to kv.Open: a client plus the read-only flag of the
// table handle that owns it.
type View struct {
	*Client
	ReadOnly bool
}

func (c *Client) View(readOnly bool) *View { return &View{Client: c, ReadOnly: readOnly} }

type faultErr struct{ msg string }

func (e faultErr) Error() string { return e.msg }

// InjectedError is what an "error" fault returns: a non-retryable request
// failure as the SDK would surface a broken connection.
func InjectedError(op, key string) error {
	return awserr.NewRequestFailure(
		awserr.New("RequestError", fmt.Sprintf("verif injected fault on %s %s", op, key), faultErr{"connection reset"}),
		0, "verif")
}

// injected5xx is a momentary service error as the SDK reports it once its own
// retries are exhausted.
func injected5xx(op, key string) error {
	return awserr.NewRequestFailure(
		awserr.New("ServiceUnavailable", fmt.Sprintf("verif injected fault on %s %s: please reduce your request rate", op, key), nil),
		503, "verif")
}

// cutErr is what reading a truncated body returns.
type cutErr struct{ op, key string }

func (e cutErr) Error() string {
	return fmt.Sprintf("verif injected fault on %s %s: unexpected EOF", e.op, e.key)
}
func (e cutErr) Unwrap() error { return io.ErrUnexpectedEOF }

// cutBody delivers the first half of an object and then fails.
type cutBody struct {
	r   *bytes.Reader
	err error
}

func (b *cutBody) Read(p []byte) (int, error) {
	n, err := b.r.Read(p)
	if err == io.EOF {
		return n, b.err
	}
	return n, err
}
func (b *cutBody) Close() error { return nil }

// errCut is the internal signal from before() to GetObject.
var errCut = errors.New("cut")

func (c *Client) faultError(kind, op, key string) error {
	if kind == "" {
		kind = [...]string{"reset", "5xx", "cut"}[c.nfault%3]
	}
	c.nfault++
	switch kind {
	case "5xx":
		return injected5xx(op, key)
	case "cut":
		if op == OpGet {
			return errCut
		}
		return injected5xx(op, key)
	}
	return InjectedError(op, key)
}

func IsInjected(err error) bool {
	return err != nil && strings.Contains(err.Error(), "verif injected fault")
}

func ctxErr(ctx context.Context) error {
	return awserr.New(request.CanceledErrorCode, "request context canceled", ctx.Err())
}

func noSuchKey(key string) error {
	return awserr.NewRequestFailure(
		awserr.New(s3.ErrCodeNoSuchKey, "The specified key does not exist.", nil), 404, "verif")
}

// before runs the pre-effect pipeline: jitter, gate, fault plan. It returns
// (err, after) where after is an action to apply after the effect ("crash").
func (v *View) before(ctx context.Context, op, key string) (error, string) {
	c := v.Client
	c.mu.Lock()
	jit := c.jitter
	gate := c.gate
	c.inflight++
	c.mu.Unlock()
	if jit != nil {
		if d := jit(); d > 0 {
			time.Sleep(d)
		}
	}
	if gate != nil {
		gate.Wait(c, op, key)
	}
	if err := ctx.Err(); err != nil {
		v.record(op, key, nil, "ctx")
		return ctxErr(ctx), ""
	}
	mut := op == OpPut || op == OpDel
	c.mu.Lock()
	c.reqs++
	if mut {
		c.muts++
	}
	if c.crashed {
		c.mu.Unlock()
		v.record(op, key, nil, "crashed")
		return InjectedError(op, key), ""
	}
	var hit *Fault
	for _, f := range c.faults {
		if f.fired {
			if f.Persistent && (f.OnlyReads == false || op == OpGet || op == OpList) {
				hit = f
				break
			}
			continue
		}
		if f.AtReq != 0 && f.AtReq != c.reqs {
			continue
		}
		if f.AtMut != 0 && (!mut || f.AtMut != c.muts) {
			continue
		}
		if f.Op != "" && f.Op != op {
			continue
		}
		if f.KeyContain != "" && !strings.Contains(key, f.KeyContain) {
			continue
		}
		if f.Skip > 0 {
			f.Skip--
			continue
		}
		f.fired = true
		hit = f
		break
	}
	if hit == nil {
		c.mu.Unlock()
		return nil, ""
	}
	switch hit.Action {
	case "error":
		err := c.faultError(hit.Kind, op, key)
		c.mu.Unlock()
		v.record(op, key, nil, "fault")
		return err, ""
	case "block":
		c.mu.Unlock()
		<-ctx.Done()
		v.record(op, key, nil, "ctx")
		return ctxErr(ctx), ""
	case "crash-before":
		c.crashed = true
		c.mu.Unlock()
		v.record(op, key, nil, "crashed")
		return InjectedError(op, key), ""
	case "crash-after":
		c.mu.Unlock()
		return nil, "crash"
	case "delay":
		c.mu.Unlock()
		time.Sleep(hit.Delay)
		return nil, ""
	}
	c.mu.Unlock()
	return nil, ""
}

func (v *View) after(op, key, post string) {
	c := v.Client
	c.mu.Lock()
	c.inflight--
	if post == "crash" {
		c.crashed = true
	}
	gate := c.gate
	c.mu.Unlock()
	if gate != nil {
		gate.Done(c, op, key)
	}
}

// record appends an event; s.mu must NOT be held.
func (v *View) record(op, key string, body []byte, res string) {
	s := v.store
	s.mu.Lock()
	v.recordLocked(op, key, body, res)
	s.mu.Unlock()
}

func (v *View) recordLocked(op, key string, body []byte, res string) {
	s := v.store
	s.lastActivity = time.Now()
	if s.LogDisabled {
		return
	}
	s.seq++
	ev := Event{Seq: s.seq, Client: v.Name, Op: op, Key: key, Res: res, RO: v.ReadOnly}
	if body != nil {
		ev.Size = len(body)
		ev.Sha = ShaHex(body)
	}
	s.log = append(s.log, ev)
}

func (v *View) assertLocked(format string, a ...interface{}) {
	v.store.asserts = append(v.store.asserts, fmt.Sprintf(format, a...))
}

func (v *View) PutObjectWithContext(ctx aws.Context, in *s3.PutObjectInput, _ ...request.Option) (*s3.PutObjectOutput, error) {
	key := *in.Key
	err, post := v.before(ctx, OpPut, key)
	defer v.after(OpPut, key, post)
	if err != nil {
		return nil, err
	}
	body, rerr := io.ReadAll(in.Body)
	if rerr != nil {
		return nil, rerr
	}
	s := v.store
	s.mu.Lock()
	if v.ReadOnly {
		v.assertLocked("readonly-mutation: client %s PUT %s", v.Name, key)
	}
	if old, ok := s.objs[key]; ok && !bytes.Equal(old, body) {
		v.assertLocked("immutability: client %s PUT %s with different bytes (%s -> %s)", v.Name, key, ShaHex(old), ShaHex(body))
	} else if !ok {
		if sha, was := s.deleted[key]; was && sha != ShaHex(body) {
			v.assertLocked("immutability: client %s re-created deleted %s with different bytes (%s -> %s)", v.Name, key, sha, ShaHex(body))
		}
	}
	s.objs[key] = body
	v.recordLocked(OpPut, key, body, "ok")
	s.mu.Unlock()
	return &s3.PutObjectOutput{}, nil
}

func (v *View) GetObjectWithContext(ctx aws.Context, in *s3.GetObjectInput, _ ...request.Option) (*s3.GetObjectOutput, error) {
	key := *in.Key
	err, post := v.before(ctx, OpGet, key)
	defer v.after(OpGet, key, post)
	if err == errCut {
		s := v.store
		s.mu.Lock()
		b := s.objs[key]
		s.mu.Unlock()
		return &s3.GetObjectOutput{
			Body:          &cutBody{r: bytes.NewReader(b[:len(b)/2]), err: cutErr{OpGet, key}},
			ContentLength: aws.Int64(int64(len(b))),
		}, nil
	}
	if err != nil {
		return nil, err
	}
	s := v.store
	s.mu.Lock()
	b, ok := s.objs[key]
	if !ok {
		v.recordLocked(OpGet, key, nil, "nosuchkey")
		s.mu.Unlock()
		return nil, noSuchKey(key)
	}
	v.recordLocked(OpGet, key, b, "ok")
	s.mu.Unlock()
	return &s3.GetObjectOutput{
		Body:          io.NopCloser(bytes.NewReader(b)),
		ContentLength: aws.Int64(int64(len(b))),
	}, nil
}

func (v *View) DeleteObjectWithContext(ctx aws.Context, in *s3.DeleteObjectInput, _ ...request.Option) (*s3.DeleteObjectOutput, error) {
	key := *in.Key
	err, post := v.before(ctx, OpDel, key)
	defer v.after(OpDel, key, post)
	if err != nil {
		return nil, err
	}
	s := v.store
	s.mu.Lock()
	if v.ReadOnly {
		v.assertLocked("readonly-mutation: client %s DELETE %s", v.Name, key)
	}
	if old, ok := s.objs[key]; ok {
		s.deleted[key] = ShaHex(old)
		delete(s.objs, key)
	}
	v.recordLocked(OpDel, key, nil, "ok")
	s.mu.Unlock()
	return &s3.DeleteObjectOutput{}, nil
}

func (v *View) ListObjectsV2WithContext(ctx aws.Context, in *s3.ListObjectsV2Input, _ ...request.Option) (*s3.ListObjectsV2Output, error) {
	prefix := ""
	if in.Prefix != nil {
		prefix = *in.Prefix
	}
	err, post := v.before(ctx, OpList, prefix)
	defer v.after(OpList, prefix, post)
	if err != nil {
		return nil, err
	}
	s := v.store
	s.mu.Lock()
	keys := s.keysLocked(prefix)
	start := ""
	if in.ContinuationToken != nil {
		start = *in.ContinuationToken
	}
	out := &s3.ListObjectsV2Output{IsTruncated: aws.Bool(false)}
	n := 0
	for _, k := range keys {
		if start != "" && k <= start {
			continue
		}
		if s.PageSize > 0 && n == s.PageSize {
			out.IsTruncated = aws.Bool(true)
			last := *out.Contents[len(out.Contents)-1].Key
			out.NextContinuationToken = aws.String(last)
			break
		}
		kk := k
		sz := int64(len(s.objs[k]))
		out.Contents = append(out.Contents, &s3.Object{Key: &kk, Size: &sz})
		n++
	}
	out.KeyCount = aws.Int64(int64(n))
	v.recordLocked(OpList, prefix, nil, "ok")
	s.mu.Unlock()
	return out, nil
}

// ---------------------------------------------------------------------------
// registry used by hook H1

var (
	regMu  sync.Mutex
	stores = map[string]*Store{}
)

func Register(s *Store) {
	regMu.Lock()
	stores[s.Name] = s
	regMu.Unlock()
}

func Unregister(name string) {
	regMu.Lock()
	delete(stores, name)
	regMu.Unlock()
}

func Lookup(name string) *Store {
	regMu.Lock()
	defer regMu.Unlock()
	return stores[name]
}

// ParseEndpoint splits "verif://<store>/<client>".
func ParseEndpoint(ep string) (store, client string, ok bool) {
	if !strings.HasPrefix(ep, "verif://") {
		return "", "", false
	}
	rest := strings.TrimPrefix(ep, "verif://")
	i := strings.IndexByte(rest, '/')
	if i < 0 {
		return rest, "default", true
	}
	return rest[:i], rest[i+1:], true
}

func Endpoint(store, client string) string { return "verif://" + store + "/" + client }
