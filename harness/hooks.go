package main

import (
	"os"
	"regexp"
	"strconv"
	"strings"
	"sync"
	"time"

	"github.com/jrhy/s3db"
	"github.com/jrhy/s3db/kv"

	"verifh/fs3"

	_ "github.com/jrhy/s3db/sqlite"
	_ "github.com/jrhy/s3db/sqlite/sqlite-autoload-extension"
	_ "github.com/mattn/go-sqlite3"
)

var (
	hookMu    sync.Mutex
	permHooks = map[string]func([]string) []string{} // by endpoint; "" = all
	clockHook func(endpoint string, when time.Time) time.Time
)

func installHooks() {
	os.Setenv("AWS_REGION", "dummy")
	os.Setenv("AWS_ACCESS_KEY_ID", "dummy")
	os.Setenv("AWS_SECRET_ACCESS_KEY", "dummy")
	s3db.VerifS3Hook = func(opts s3db.S3Options, c kv.S3Interface) kv.S3Interface {
		st, cl, ok := fs3.ParseEndpoint(opts.Endpoint)
		if !ok {
			return c
		}
		s := fs3.Lookup(st)
		if s == nil {
			return c
		}
		return s.Client(cl).View(opts.ReadOnly)
	}
	kv.VerifPermuteRoots = func(ep string, roots []string) []string {
		hookMu.Lock()
		f := permHooks[ep]
		if f == nil {
			f = permHooks[""]
		}
		hookMu.Unlock()
		if f == nil {
			return roots
		}
		return f(roots)
	}
	kv.VerifWhen = func(ep string, when time.Time) time.Time {
		hookMu.Lock()
		f := clockHook
		hookMu.Unlock()
		if f == nil {
			return when
		}
		return f(ep, when)
	}
}

func setPerm(endpoint string, f func([]string) []string) {
	hookMu.Lock()
	if f == nil {
		delete(permHooks, endpoint)
	} else {
		permHooks[endpoint] = f
	}
	hookMu.Unlock()
}

func setClock(f func(endpoint string, when time.Time) time.Time) {
	hookMu.Lock()
	clockHook = f
	hookMu.Unlock()
}

// ---------------------------------------------------------------------------
// race log attribution

var (
	raceOff  int64
	reRaceAt = regexp.MustCompile(`(?m)^  ([^\s(]+)\(`)
)

// collectRaceReports reads what the race detector appended to this process's
// log since the previous case and records it on the case.
func collectRaceReports(c *Case) {
	g := os.Getenv("GORACE")
	i := strings.Index(g, "log_path=")
	if i < 0 {
		return
	}
	p := strings.Fields(g[i+len("log_path="):])[0]
	p = p + "." + strconv.Itoa(os.Getpid())
	b, err := os.ReadFile(p)
	if err != nil || int64(len(b)) <= raceOff {
		return
	}
	chunk := string(b[raceOff:])
	raceOff = int64(len(b))
	blocks := strings.Split(chunk, "WARNING: DATA RACE")
	for _, blk := range blocks[1:] {
		c.Count("race_reports", 1)
		sig := raceSig(blk)
		ck := checks[c.ID]
		if ck != nil && (ck.ID == "C19" || ck.ID == "C18") {
			if len(blk) > 4000 {
				blk = blk[:4000]
			}
			c.Violate(ck.ID+":race:"+sig, "data race reported by the race detector: "+sig, blk)
		} else {
			c.Distinct("race_sigs", sig)
		}
	}
}

// raceSig deduplicates by the outermost non-runtime frames of the two stacks.
func raceSig(blk string) string {
	parts := strings.Split(blk, "\n\n")
	var outs []string
	for _, p := range parts {
		if !(strings.Contains(p, "Write at") || strings.Contains(p, "Read at") || strings.Contains(p, "Previous ")) {
			continue
		}
		fr := reRaceAt.FindAllStringSubmatch(p, -1)
		var first string
		for _, f := range fr {
			fn := f[1]
			if strings.HasPrefix(fn, "runtime.") || strings.HasPrefix(fn, "sync.") || strings.HasPrefix(fn, "sync/atomic.") {
				continue
			}
			first = fn
			break
		}
		outs = append(outs, first)
	}
	return strings.Join(outs, "<>")
}
