package main

import (
	"fmt"
	"strings"
	"sync"
	"time"

	"verifh/fs3"
)

// sched is a deterministic scheduler over gated storage requests. At any
// moment at most one client goroutine runs; every other one is parked at the
// gate (or has finished). A schedule is the sequence of client indices that
// were granted; logical time advances on every grant, call and return.
type sched struct {
	mu      sync.Mutex
	cond    *sync.Cond
	clients []*schedClient
	byName  map[string]*schedClient
	clock   int64
	gateAll bool // gate every request; otherwise only the version namespace (LIST and keys under root/)
	trace   []string
	dead    bool
}

type schedClient struct {
	idx     int
	name    string
	state   int // 0 not started, 1 running, 2 parked at gate, 3 finished
	grant   chan struct{}
	pending string // "OP key" of the parked request
}

func newSched(names []string, gateAll bool) *sched {
	s := &sched{byName: map[string]*schedClient{}, gateAll: gateAll}
	s.cond = sync.NewCond(&s.mu)
	for i, n := range names {
		c := &schedClient{idx: i, name: n, grant: make(chan struct{})}
		s.clients = append(s.clients, c)
		s.byName[n] = c
	}
	return s
}

func (s *sched) gated(op, key string) bool {
	if s.gateAll {
		return true
	}
	return op == fs3.OpList || strings.Contains(key, "/root/")
}

// Wait implements fs3.Gate.
func (s *sched) Wait(c *fs3.Client, op, key string) {
	sc := s.byName[c.Name]
	if sc == nil || !s.gated(op, key) {
		return
	}
	s.mu.Lock()
	if s.dead {
		s.mu.Unlock()
		return
	}
	sc.state = 2
	sc.pending = op + " " + shortKey(key)
	s.cond.Broadcast()
	s.mu.Unlock()
	<-sc.grant
}

// Done implements fs3.Gate.
func (s *sched) Done(c *fs3.Client, op, key string) {}

func shortKey(k string) string {
	if i := strings.Index(k, "s3db-rows/"); i >= 0 {
		k = k[i+len("s3db-rows/"):]
	}
	if len(k) > 40 {
		k = k[:40]
	}
	return k
}

// Tick returns the next logical time stamp.
func (s *sched) Tick() int64 {
	s.mu.Lock()
	s.clock++
	t := s.clock
	s.mu.Unlock()
	return t
}

// run executes the client bodies under the schedule: choose is called at every
// decision point with the indices of the parked clients and returns the one to
// grant. It returns the grant sequence and false when the watchdog fired.
func (s *sched) run(bodies []func(), choose func(step int, enabled []int) int) ([]int, bool) {
	var grants []int
	finish := func(sc *schedClient) {
		s.mu.Lock()
		sc.state = 3
		s.cond.Broadcast()
		s.mu.Unlock()
	}
	waitQuiet := func() bool {
		// wait until no client is running
		deadline := time.Now().Add(60 * time.Second)
		s.mu.Lock()
		defer s.mu.Unlock()
		for {
			running := false
			for _, c := range s.clients {
				if c.state == 1 {
					running = true
				}
			}
			if !running {
				return true
			}
			if time.Now().After(deadline) {
				return false
			}
			// cond.Wait has no timeout; poll with a helper goroutine wake-up
			go func() {
				time.Sleep(50 * time.Millisecond)
				s.mu.Lock()
				s.cond.Broadcast()
				s.mu.Unlock()
			}()
			s.cond.Wait()
		}
	}
	// start the clients one at a time, each running to its first gate
	for i, sc := range s.clients {
		s.mu.Lock()
		sc.state = 1
		s.mu.Unlock()
		body := bodies[i]
		sc := sc
		go func() {
			defer finish(sc)
			body()
		}()
		if !waitQuiet() {
			s.kill()
			return grants, false
		}
	}
	for step := 0; ; step++ {
		var enabled []int
		s.mu.Lock()
		for _, c := range s.clients {
			if c.state == 2 {
				enabled = append(enabled, c.idx)
			}
		}
		s.mu.Unlock()
		if len(enabled) == 0 {
			return grants, true
		}
		pick := choose(step, enabled)
		sc := s.clients[pick]
		s.mu.Lock()
		s.clock++
		sc.state = 1
		s.trace = append(s.trace, fmt.Sprintf("%s: %s", sc.name, sc.pending))
		s.mu.Unlock()
		grants = append(grants, pick)
		sc.grant <- struct{}{}
		if !waitQuiet() {
			s.kill()
			return grants, false
		}
	}
}

// kill releases every parked client so that goroutines can drain.
func (s *sched) kill() {
	s.mu.Lock()
	s.dead = true
	var parked []*schedClient
	for _, c := range s.clients {
		if c.state == 2 {
			parked = append(parked, c)
		}
	}
	s.mu.Unlock()
	for _, c := range parked {
		select {
		case c.grant <- struct{}{}:
		default:
		}
	}
}
