package main

import (
	"encoding/json"
	"fmt"
	"os"
	"path/filepath"
	"sort"
	"strconv"
	"strings"
)

func usage() {
	fmt.Fprintln(os.Stderr, `usage:
  verif check <ID> [--tier quick|thorough] [--seed N] [--cases i,j,k]
  verif worker <ID> --tier T --seed N --cases i,j [--out file] [--dir d] [-v]
  verif replay <path>
  verif list`)
	os.Exit(64)
}

func parseCases(s string) []int {
	var out []int
	for _, p := range strings.Split(s, ",") {
		p = strings.TrimSpace(p)
		if p == "" {
			continue
		}
		if strings.Contains(p, "-") {
			ab := strings.SplitN(p, "-", 2)
			a, _ := strconv.Atoi(ab[0])
			b, _ := strconv.Atoi(ab[1])
			for i := a; i <= b; i++ {
				out = append(out, i)
			}
			continue
		}
		v, err := strconv.Atoi(p)
		if err == nil {
			out = append(out, v)
		}
	}
	return out
}

func main() {
	if len(os.Args) < 2 {
		usage()
	}
	installHooks()
	cmd := os.Args[1]
	args := os.Args[2:]
	switch cmd {
	case "list":
		var ids []string
		for id := range checks {
			ids = append(ids, id)
		}
		sort.Strings(ids)
		for _, id := range ids {
			fmt.Printf("%s %s\n", id, strings.Join(checks[id].Flavours, ","))
		}
	case "flavours":
		if len(args) < 1 || checks[args[0]] == nil {
			usage()
		}
		fl := checks[args[0]].Flavours
		if len(fl) == 0 {
			fl = []string{"plain"}
		}
		fmt.Println(strings.Join(fl, " "))
	case "check", "worker":
		if len(args) < 1 {
			usage()
		}
		ck := checks[args[0]]
		if ck == nil {
			fmt.Fprintf(os.Stderr, "unknown check %s\n", args[0])
			os.Exit(64)
		}
		tier := tierOf()
		seed := seedOf()
		var only []int
		var out, dir string
		verbose := false
		for i := 1; i < len(args); i++ {
			switch args[i] {
			case "--tier":
				i++
				tier = args[i]
			case "--seed":
				i++
				v, _ := strconv.ParseUint(args[i], 10, 64)
				seed = v
			case "--cases":
				i++
				only = parseCases(args[i])
			case "--out":
				i++
				out = args[i]
			case "--dir":
				i++
				dir = args[i]
			case "-v":
				verbose = true
			}
		}
		if cmd == "check" {
			if only != nil {
				os.Setenv("VERIF_ONLY", "1")
			}
			os.Exit(runParent(ck, tier, seed, only))
		}
		runWorkerMain(ck, tier, seed, only, out, dir, verbose)
	case "childread":
		childRead(args)
	case "replay":
		if len(args) < 1 {
			usage()
		}
		b, err := os.ReadFile(args[0])
		if err != nil {
			fmt.Fprintln(os.Stderr, err)
			os.Exit(64)
		}
		var rec struct {
			Property string `json:"property"`
			Seed     uint64 `json:"seed"`
			Tier     string `json:"tier"`
			Index    int    `json:"index"`
		}
		if err := json.Unmarshal(b, &rec); err != nil {
			fmt.Fprintln(os.Stderr, err)
			os.Exit(64)
		}
		ck := checks[rec.Property]
		if ck == nil {
			fmt.Fprintf(os.Stderr, "unknown check %s\n", rec.Property)
			os.Exit(64)
		}
		dir, _ := os.MkdirTemp(filepath.Join(verifRoot, "work"), "replay-")
		defer os.RemoveAll(dir)
		runWorkerMain(ck, rec.Tier, rec.Seed, []int{rec.Index}, "", dir, true)
	default:
		usage()
	}
}
