package main

import (
	"fmt"
	"strings"
	"time"

	"verifh/fs3"
	"verifh/walk"
)

func init() {
	register(&Check{
		ID:    "C15",
		Level: "exploration",
		Rule: "kind A (3 of 4 cases): a random multi-writer history as in C02 is executed, a fresh open is dumped, then 3-12 of the already accepted statements are re-executed byte for byte (same write_time, same values) at later points on the same or another writer, interleaved with refreshes; the merged dump must not change and must equal the model (which also decides that an older-stamped statement never undoes a newer one); " +
			"kind B (1 of 4): connection attributes - write_time/deadline read back from s3db_conn, NULL after clearing, decoded per-column and delete-status stamps in the bucket equal the write_time in force statement by statement, default stamps after clearing fall inside the harness's own before/after bracket, an expired deadline fails storage-touching statements only while set, a second connection is unaffected. " +
			"non-trivial = at least one retry was executed on a key with a later conflicting change (A) / all attribute steps ran (B)",
		Flavours: []string{"plain"},
		Cases: func(tier string) int {
			if tier == "thorough" {
				return 3000
			}
			return 400
		},
		MinNT: func(tier string) int {
			if tier == "thorough" {
				return 1500
			}
			return 160
		},
		Run: runC15,
		Assumptions: []string{
			"a retry is a byte-identical re-execution of a statement the system had accepted",
			"the default write time is only bracketed by the harness's own clock readings before and after the statement (no deadline involved)",
		},
	})
}

func runC15(c *Case) {
	if c.Index%4 == 3 {
		c15Attrs(c)
		return
	}
	r := c.R
	nw := r.Range(1, 3)
	nkeys := r.Range(1, 4)
	nst := r.Range(8, 24)
	epn := []int{4096, 4096, 2, 3}[r.Intn(4)]
	plan := genPlan(r, nw, nkeys, nst, 0.15, 0.1)
	w, err := newWorld(c, nw, epn)
	defer w.close()
	if err != nil {
		c.Violate("C15:create", err.Error(), nil)
		return
	}
	if !runHistory(c, w, plan, "C15:", true) {
		return
	}
	before, err := w.freshDump(true, "ro-before")
	if err != nil {
		c.Violate("C15:open-error", err.Error(), w.log)
		return
	}
	if d := firstDiff(mrow(w.committed()), before); d != "" {
		c.Violate("C15:merged-differs", "merged rows differ from the model before any retry: "+d, w.log)
		return
	}
	var acc []HStmt
	for _, s := range w.stmts {
		if s.Accepted {
			acc = append(acc, s)
		}
	}
	if len(acc) == 0 {
		return
	}
	nre := r.Range(3, 12)
	interesting := 0
	for i := 0; i < nre; i++ {
		orig := acc[r.Intn(len(acc))]
		// a later change of the same key exists?
		for _, s := range acc {
			if s.Key == orig.Key && s.T > orig.T {
				interesting++
				break
			}
		}
		re := orig
		re.RetryOf = orig.ID
		if r.Bool() {
			re.W = r.Intn(nw)
		}
		if orig.Kind == "ins" {
			// replay with the columns the original statement named
			cols := map[string]string{}
			for col, v := range orig.Cols {
				if v != "NULL" {
					cols[col] = v
				}
			}
			re.Cols = cols
		}
		if r.Chance(0.3) {
			w.refresh(re.W)
		}
		s, err := w.exec(re)
		if err != nil {
			c.Violate("C15:retry-error", fmt.Sprintf("retry failed: %s: %v", s, err), w.log)
			return
		}
		c.Count("retries_executed", 1)
		if s.Accepted {
			c.Count("retries_accepted", 1)
		}
		hw := w.ws[re.W]
		got, err := hw.conn.Dump(hw.table)
		if err != nil {
			c.Violate("C15:local-dump-error", err.Error(), w.log)
			return
		}
		if d := firstDiff(mrow(w.pastStmts(hw)), got); d != "" {
			c.Violate("C15:local-differs-after-retry-"+re.Kind, fmt.Sprintf("writer w%d's view after retry %s differs from the model: %s", re.W, s, d), w.log)
			return
		}
	}
	for _, tag := range []string{"ro-after", "rw-after"} {
		after, err := w.freshDump(tag == "ro-after", tag)
		if err != nil {
			c.Violate("C15:open-error", err.Error(), w.log)
			return
		}
		c.Count("merged_dumps_compared", 1)
		if d := firstDiff(before, after); d != "" {
			c.Violate("C15:retry-changed-contents", fmt.Sprintf("re-executing accepted statements with the same write_time and values changed the merged table (%s): %s", tag, d), w.log)
			return
		}
	}
	if interesting > 0 {
		shape, _ := conflictShape(w.stmts)
		c.NonTrivial(shape)
	}
	if c.Index < 4 {
		l := w.log
		if len(l) > 30 {
			l = l[len(l)-30:]
		}
		c.Res.Sample = map[string]interface{}{"kind": "retries", "writers": nw, "history_tail": l}
	}
}

func c15Attrs(c *Case) {
	r := c.R
	st := newStore()
	defer dropStore(st)
	conn := OpenConn("a")
	defer conn.Close()
	other := OpenConn("b")
	defer other.Close()
	t := tname(c, "a")
	t2 := tname(c, "b")
	spec := TableSpec{Name: t, Cols: "k PRIMARY KEY, a, b", Store: st.Name, Client: "a", Prefix: "p", EPN: []int{4096, 3}[r.Intn(2)]}
	if err := conn.Create(spec); err != nil {
		c.Violate("C15:create", err.Error(), nil)
		return
	}
	s2 := spec
	s2.Name, s2.Client, s2.Prefix = t2, "b", "q"
	if err := other.Create(s2); err != nil {
		c.Violate("C15:create", err.Error(), nil)
		return
	}
	base := walk.Base("p")
	var trace []string
	fail := func(sig, msg string) { c.Violate("C15:attrs:"+sig, msg, trace) }
	readConn := func(cn *Conn) (string, bool) {
		rows, err := cn.Rows("select deadline, write_time from s3db_conn")
		if err != nil || len(rows) != 1 {
			fail("conn-read-error", fmt.Sprintf("select from s3db_conn: %v %v", rows, err))
			return "", false
		}
		return rows[0], true
	}
	entry := func(key int64) *walk.Entry {
		snap := st.Snapshot()
		names := walk.VersionNames(snap, base, "current")
		if len(names) != 1 {
			return nil
		}
		v := walk.Walk(snap, base, names[0])
		for i := range v.Entries {
			if v.Entries[i].Key.Type == 1 && v.Entries[i].Key.Int == key {
				return &v.Entries[i]
			}
		}
		return nil
	}
	if got, ok := readConn(conn); !ok || got != "NULL|NULL" {
		if ok {
			fail("defaults", "fresh connection shows "+got+", want NULL|NULL")
		}
		return
	}
	steps := r.Range(6, 14)
	key := int64(0)
	cur := 0 // current explicit write time in seconds; 0 = default
	for i := 0; i < steps && c.Res.Status != "violated"; i++ {
		switch r.Intn(5) {
		case 0:
			cur = 100 + r.Intn(5000)
			if err := conn.SetWriteTime(cur); err != nil {
				fail("set-error", err.Error())
				return
			}
			trace = append(trace, fmt.Sprintf("set write_time=%s", tstr(cur)))
			if got, ok := readConn(conn); ok && got != "NULL|t:"+tstr(cur) {
				fail("readback", "s3db_conn shows "+got+" after setting write_time to "+tstr(cur))
			}
			c.Count("attr_readbacks", 1)
		case 1:
			cur = 0
			if r.Bool() {
				conn.Exec("update s3db_conn set write_time=NULL")
			} else {
				conn.Exec("update s3db_conn set write_time=''")
			}
			trace = append(trace, "clear write_time")
			if got, ok := readConn(conn); ok && got != "NULL|NULL" {
				fail("readback-after-clear", "s3db_conn shows "+got+" after clearing")
			}
			c.Count("attr_readbacks", 1)
		default:
			key++
			kind := r.Intn(3)
			if key > 0 && r.Intn(4) == 0 {
				// a statement that fails when its transaction starts (the table is re-opened, so BEGIN has to
				// read the tree, and that read fails): the connection's attributes stay as they are
				conn.Exec("drop table " + t)
				if err := conn.Create(spec); err == nil {
					st.Client("a").AddFault(fs3.Fault{Op: fs3.OpGet, Action: "error"})
					err := conn.Exec(fmt.Sprintf("update %s set b='never' where k=%d", t, key))
					st.Client("a").ClearFaults()
					trace = append(trace, fmt.Sprintf("re-open; update with a failing GET -> %v", err))
					if err != nil && fs3.IsInjected(err) {
						c.Count("statements_failing_at_begin", 1)
						wantConn := "NULL|NULL"
						if cur != 0 {
							wantConn = "NULL|t:" + tstr(cur)
						}
						if got, ok := readConn(conn); ok && got != wantConn {
							fail("readback-after-failed-statement", "s3db_conn shows "+got+" after a statement that failed on storage; before it showed "+wantConn)
						}
					}
				}
			}
			if r.Intn(4) == 0 {
				// something rolled back first - a transaction, or a statement refused for its key -: the
				// time it ran at is not the time of what follows
				if r.Bool() || key == 1 {
					conn.Exec("begin")
					conn.Exec(fmt.Sprintf("insert into %s values (%d, 'rolled', 'back')", t, 900000+i))
					conn.Exec("rollback")
					trace = append(trace, "begin; insert; rollback")
				} else {
					err := conn.Exec(fmt.Sprintf("insert into %s values (%d, 'refused', 'x')", t, key-1))
					trace = append(trace, fmt.Sprintf("insert of the existing key %d -> %v", key-1, err))
				}
				c.Count("rollbacks_before_a_statement", 1)
				time.Sleep(3 * time.Millisecond)
			}
			t0 := time.Now()
			var q string
			switch {
			case kind == 0 || key == 1:
				q = fmt.Sprintf("insert into %s values (%d, 'a%d', 'b%d')", t, key, i, i)
				kind = 0
			case kind == 1:
				key--
				q = fmt.Sprintf("update %s set a='u%d' where k=%d", t, i, key)
			default:
				key--
				q = fmt.Sprintf("delete from %s where k=%d", t, key)
			}
			useTx := r.Intn(3) == 0
			if useTx {
				conn.Exec("begin")
			}
			n, err := conn.ExecN(q)
			if useTx {
				if e2 := conn.Exec("commit"); e2 != nil && err == nil {
					err = e2
				}
			}
			t1 := time.Now()
			trace = append(trace, fmt.Sprintf("%s (write_time %d, tx=%v) -> %d rows, %v", q, cur, useTx, n, err))
			if err != nil {
				fail("statement-error", q+": "+err.Error())
				return
			}
			if n == 0 {
				continue
			}
			e := entry(key)
			if e == nil {
				fail("entry-missing", fmt.Sprintf("key %d not found in the committed version after %s", key, q))
				return
			}
			c.Count("stamps_decoded", 1)
			var stamp int64
			what := ""
			switch kind {
			case 0, 2:
				stamp, what = e.DeleteTime(), "delete-status time"
			default:
				stamp, _ = e.ColTime("a")
				what = "update time of column a"
			}
			if cur != 0 {
				// statement may legitimately lose against a newer stored change; then the stamp is newer, never equal to another explicit value
				if stamp != tnanos(cur) {
					// acceptable only if the stored change is newer than this statement
					if stamp < tnanos(cur) {
						fail("stamp-differs", fmt.Sprintf("%s of key %d is %s after a statement with write_time %s", what, key, time.Unix(0, stamp).UTC().Format(time.RFC3339Nano), tstr(cur)))
					} else {
						c.Count("statement_lost_to_newer_change", 1)
					}
				} else {
					c.Count("explicit_stamps_matched", 1)
				}
			} else {
				if stamp < t0.UnixNano() || stamp > t1.UnixNano() {
					// a default-stamped statement can lose against an explicit stamp in the future only if such was set; explicit times here are in 2020, so the default (now) always wins
					fail("default-stamp-outside-bracket", fmt.Sprintf("%s of key %d is %s; the statement ran between %s and %s with write_time cleared", what, key,
						time.Unix(0, stamp).UTC().Format(time.RFC3339Nano), t0.UTC().Format(time.RFC3339Nano), t1.UTC().Format(time.RFC3339Nano)))
				} else {
					c.Count("default_stamps_in_bracket", 1)
				}
			}
		}
	}
	if c.Res.Status == "violated" {
		return
	}
	// an explicit write_time set inside an open transaction (which started on the default clock)
	// stays in force after COMMIT / ROLLBACK
	{
		conn.Exec("update s3db_conn set write_time=NULL")
		conn.Exec("begin")
		conn.Exec(fmt.Sprintf("insert into %s values (800001, 'in-tx-default', 'x')", t))
		wt := 6000 + r.Intn(100)
		conn.SetWriteTime(wt)
		conn.Exec(fmt.Sprintf("insert into %s values (800002, 'in-tx-explicit', 'x')", t))
		end := "commit"
		if r.Intn(3) == 0 {
			end = "rollback"
		}
		conn.Exec(end)
		trace = append(trace, fmt.Sprintf("begin; insert (default clock); set write_time=%s; insert; %s", tstr(wt), end))
		if got, ok := readConn(conn); ok && got != "NULL|t:"+tstr(wt) {
			fail("write-time-lost-at-"+end, fmt.Sprintf("write_time %s was set inside a transaction; after %s s3db_conn shows %s", tstr(wt), end, got))
			return
		}
		if err := conn.Exec(fmt.Sprintf("insert into %s values (800003, 'after-tx', 'x')", t)); err == nil {
			if e := entry(800003); e != nil && e.DeleteTime() != tnanos(wt) {
				fail("stamp-differs-after-tx", fmt.Sprintf("a statement after %s carries stamp %s, write_time in force is %s", end, time.Unix(0, e.DeleteTime()).UTC().Format(time.RFC3339), tstr(wt)))
				return
			}
		}
		conn.Exec("update s3db_conn set write_time=NULL")
		c.Count("write_time_set_inside_tx", 1)
	}
	// the other connection never saw any of it
	if got, ok := readConn(other); ok && got != "NULL|NULL" {
		fail("cross-talk", "another connection shows "+got)
	}
	// deadline: expired -> storage-touching statements fail; cleared -> fine again
	conn.Exec("update s3db_conn set write_time=NULL")
	past := "2000-01-01 00:00:00"
	if err := conn.Exec("update s3db_conn set deadline=?", past); err != nil {
		fail("set-error", err.Error())
		return
	}
	if got, ok := readConn(conn); ok && got != "t:"+past+"|NULL" {
		fail("readback", "s3db_conn shows "+got+" after setting deadline "+past)
	}
	errRefresh := conn.Exec("select s3db_refresh('" + t + "')")
	errInsert := conn.Exec(fmt.Sprintf("insert into %s values (900001, 'x', 'y')", t))
	trace = append(trace, fmt.Sprintf("expired deadline: refresh -> %v, insert -> %v", errRefresh, errInsert))
	if errRefresh == nil {
		fail("deadline-ignored:refresh", "s3db_refresh succeeded although the connection's deadline is in the past")
	}
	if errInsert == nil {
		fail("deadline-ignored:insert", "an autocommit INSERT succeeded although the connection's deadline is in the past")
	}
	// other connection unaffected by this connection's deadline
	if err := other.Exec(fmt.Sprintf("insert into %s values (1, 'o', 'o')", t2)); err != nil {
		fail("cross-talk-deadline", "another connection's INSERT failed while only this connection has an expired deadline: "+err.Error())
	}
	if r.Bool() {
		conn.Exec("update s3db_conn set deadline=NULL")
	} else {
		conn.Exec("update s3db_conn set deadline=''")
	}
	if got, ok := readConn(conn); ok && got != "NULL|NULL" {
		fail("readback-after-clear", "s3db_conn shows "+got+" after clearing the deadline")
	}
	if err := conn.Exec("select s3db_refresh('" + t + "')"); err != nil {
		fail("deadline-sticks:refresh", "s3db_refresh still fails after the deadline was cleared: "+err.Error())
	}
	if err := conn.Exec(fmt.Sprintf("insert into %s values (900002, 'x', 'y')", t)); err != nil {
		fail("deadline-sticks:insert", "INSERT still fails after the deadline was cleared: "+err.Error())
	}
	rows, _ := conn.Rows("select count(*) from " + t + " where k = 900001")
	if len(rows) == 1 && rows[0] != "i:0" {
		fail("failed-insert-visible", "the INSERT that failed under the expired deadline is visible")
	}
	// a future deadline does not disturb
	fut := time.Now().Add(1 * time.Hour).UTC().Format("2006-01-02 15:04:05")
	conn.Exec("update s3db_conn set deadline=?", fut)
	if err := conn.Exec(fmt.Sprintf("insert into %s values (900003, 'x', 'y')", t)); err != nil {
		fail("future-deadline", "INSERT fails with a deadline one hour ahead: "+err.Error())
	}
	// dropping one table must not disturb the connection's other statements while a deadline is set
	t3 := tname(c, "c")
	s3 := spec
	s3.Name, s3.Client, s3.Prefix = t3, "a3", "r"
	{
		// first: an explicit write_time set BEFORE the drop must still stamp statements after it
		tx := tname(c, "x")
		sx := spec
		sx.Name, sx.Client, sx.Prefix = tx, "ax", "rx"
		wt := 7000 + r.Intn(100)
		conn.SetWriteTime(wt)
		if err := conn.Create(sx); err == nil {
			conn.Exec("drop table " + tx)
			if err := conn.Exec(fmt.Sprintf("insert into %s values (900010, 'x', 'y')", t)); err != nil {
				fail("drop-table-breaks-connection", "after DROP of another table an INSERT fails: "+err.Error())
				return
			}
			if got, ok := readConn(conn); ok && !strings.HasSuffix(got, "|t:"+tstr(wt)) {
				fail("write-time-lost-at-drop", "s3db_conn shows "+got+" after DROP of another table; write_time was "+tstr(wt))
				return
			}
			if e := entry(900010); e != nil && e.DeleteTime() != tnanos(wt) {
				fail("write-time-not-applied-after-drop", fmt.Sprintf("write_time %s was set (and is still shown by s3db_conn); after DROP of another table a statement was stamped %s", tstr(wt), time.Unix(0, e.DeleteTime()).UTC().Format(time.RFC3339)))
				return
			}
			c.Count("write_time_across_drop", 1)
		}
		conn.Exec("update s3db_conn set write_time=NULL")
	}
	if err := conn.Create(s3); err != nil {
		fail("create-under-future-deadline", err.Error())
	} else {
		conn.Exec("drop table " + t3)
		conn2ok := true
		if r.Bool() {
			// with an explicit write_time BEGIN does not rebuild the context
			conn.SetWriteTime(9000)
		} else if err := conn.Exec("select s3db_refresh('" + t + "')"); err != nil {
			fail("drop-table-breaks-connection", "after DROP of another table, with a deadline one hour ahead, s3db_refresh fails: "+err.Error())
			conn2ok = false
		}
		if !conn2ok {
			return
		}
		if err := conn.Exec(fmt.Sprintf("insert into %s values (900004, 'x', 'y')", t)); err != nil {
			fail("drop-table-breaks-connection", "after DROP of another table, with a deadline one hour ahead, an INSERT fails: "+err.Error())
		}
		if err := conn.Exec("select s3db_refresh('" + t + "')"); err != nil {
			fail("drop-table-breaks-connection", "after DROP of another table, with a deadline one hour ahead, s3db_refresh fails: "+err.Error())
		}
	}
	c.Count("deadline_scenarios", 1)
	c.NonTrivial(strings.Join(trace, ";"))
	if c.Index < 8 {
		tr := trace
		if len(tr) > 10 {
			tr = tr[:10]
		}
		c.Res.Sample = map[string]interface{}{"kind": "attributes", "trace": tr}
	}
}
