package main

import (
	"context"
	"fmt"
	"strings"

	"github.com/jrhy/s3db"
	v1proto "github.com/jrhy/s3db/proto/v1"

	"verifh/fs3"
	"verifh/walk"
)

// openVersions opens the table's tree restricted to the given versions
// (nil = everything under root/current) through the exported Go API, read-only,
// with no node cache: the "fresh process with an empty cache".
func openVersions(store *fs3.Store, client, prefix string, versions []string) (*s3db.KV, error) {
	return s3db.OpenKV(context.Background(), s3db.S3Options{
		Bucket: "b", Endpoint: fs3.Endpoint(store.Name, client), Prefix: prefix,
		ReadOnly: true, OnlyVersions: versions,
	}, "s3db-rows")
}

// scanKV walks the whole tree with the real cursor and renders live rows.
func scanKV(t *s3db.KV, cols []string) ([]string, error) {
	ctx := context.Background()
	cur, err := t.Root.Cursor(ctx)
	if err != nil {
		return nil, err
	}
	if err := cur.Min(ctx); err != nil {
		return nil, err
	}
	var out []string
	for {
		k, v, ok := cur.Get()
		if !ok {
			break
		}
		if !v.Tombstoned() {
			if row, _ := v.Value.(*v1proto.Row); row != nil && !row.Deleted {
				var sb strings.Builder
				sb.WriteString(walk.KeyString(k.(*s3db.Key).SQLiteValue))
				for _, c := range cols {
					sb.WriteString("|")
					if cv, ok := row.ColumnValues[c]; ok && cv.Value != nil {
						sb.WriteString(walk.KeyString(cv.Value))
					} else {
						sb.WriteString("NULL")
					}
				}
				out = append(out, sb.String())
			}
		}
		if err := cur.Forward(ctx); err != nil {
			return out, fmt.Errorf("forward: %w", err)
		}
	}
	return out, nil
}

func parseVersionList(s string) []string {
	// s3db_version() returns JSON like ["a","b"]; rendered cell is t:[...]
	s = strings.TrimPrefix(s, "t:")
	s = strings.TrimSpace(s)
	s = strings.TrimPrefix(s, "[")
	s = strings.TrimSuffix(s, "]")
	if s == "" {
		return []string{}
	}
	var out []string
	for _, p := range strings.Split(s, ",") {
		out = append(out, strings.Trim(strings.TrimSpace(p), `"`))
	}
	return out
}

func firstDiff(a, b []string) string {
	n := len(a)
	if len(b) < n {
		n = len(b)
	}
	for i := 0; i < n; i++ {
		if a[i] != b[i] {
			return fmt.Sprintf("row %d: %q vs %q (lens %d,%d)", i, a[i], b[i], len(a), len(b))
		}
	}
	if len(a) != len(b) {
		if len(a) > n {
			return fmt.Sprintf("lens %d vs %d; extra left %q", len(a), len(b), a[n])
		}
		return fmt.Sprintf("lens %d vs %d; extra right %q", len(a), len(b), b[n])
	}
	return ""
}
