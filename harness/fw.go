package main

import (
	"bufio"
	"crypto/sha256"
	"encoding/hex"
	"encoding/json"
	"fmt"
	"os"
	"os/exec"
	"path/filepath"
	"regexp"
	"runtime"
	"sort"
	"strconv"
	"strings"
	"sync"
	"syscall"
	"time"
)

var verifRoot = func() string {
	if v := os.Getenv("VERIF_ROOT"); v != "" {
		return v
	}
	return "/verif"
}()

// Viol is one observed violation.
type Viol struct {
	Sig    string      `json:"sig"` // stable signature used to match known findings
	Msg    string      `json:"msg"`
	Detail interface{} `json:"detail,omitempty"`
}

// Result is the outcome of one case.
type Result struct {
	Index      int                 `json:"index"`
	Status     string              `json:"status"` // held | violated | inconclusive
	NonTrivial bool                `json:"nontrivial"`
	Key        string              `json:"key,omitempty"` // canonical hash for distinctness
	Viols      []Viol              `json:"viols,omitempty"`
	Sum        map[string]int64    `json:"sum,omitempty"`
	Max        map[string]int64    `json:"max,omitempty"`
	Sets       map[string][]string `json:"sets,omitempty"` // distinct-value counters (hashes)
	Sample     interface{}         `json:"sample,omitempty"`
	Note       string              `json:"note,omitempty"`
	Flavour    string              `json:"flavour,omitempty"`
}

// Case is the context handed to a check's Run function.
type Case struct {
	ID      string
	Tier    string
	Seed    uint64
	Index   int
	R       *Rng
	Res     *Result
	Verbose bool
	Flavour string
	Dir     string // scratch directory of this worker
	hb      func()
}

// Heartbeat tells the parent's watchdog that a long case is still making
// progress (the verdict of a hang is about the absence of progress).
func (c *Case) Heartbeat() {
	if c.hb != nil {
		c.hb()
	}
}

func (c *Case) Violate(sig, msg string, detail interface{}) {
	c.Res.Status = "violated"
	if len(c.Res.Viols) < 20 {
		c.Res.Viols = append(c.Res.Viols, Viol{Sig: sig, Msg: msg, Detail: detail})
	}
	if c.Verbose {
		fmt.Printf("  violation sig=%s\n    %s\n", sig, msg)
	}
}

func (c *Case) Inconclusive(note string) {
	if c.Res.Status != "violated" {
		c.Res.Status = "inconclusive"
	}
	c.Res.Note = note
}

func (c *Case) Count(name string, n int64) {
	if c.Res.Sum == nil {
		c.Res.Sum = map[string]int64{}
	}
	c.Res.Sum[name] += n
}

func (c *Case) MaxOf(name string, n int64) {
	if c.Res.Max == nil {
		c.Res.Max = map[string]int64{}
	}
	if n > c.Res.Max[name] {
		c.Res.Max[name] = n
	}
}

// Distinct records a value in a named set whose distinct members are counted
// across the whole run (stored as short hashes).
func (c *Case) Distinct(set, value string) {
	if c.Res.Sets == nil {
		c.Res.Sets = map[string][]string{}
	}
	h := shortHash(value)
	for _, x := range c.Res.Sets[set] {
		if x == h {
			return
		}
	}
	if len(c.Res.Sets[set]) < 4096 {
		c.Res.Sets[set] = append(c.Res.Sets[set], h)
	}
}

// NonTrivial marks the case non-trivial with a canonical form for counting
// distinct cases.
func (c *Case) NonTrivial(canonical string) {
	c.Res.NonTrivial = true
	c.Res.Key = shortHash(canonical)
}

func (c *Case) Logf(format string, a ...interface{}) {
	if c.Verbose {
		fmt.Printf(format+"\n", a...)
	}
}

func shortHash(s string) string {
	h := sha256.Sum256([]byte(s))
	return hex.EncodeToString(h[:8])
}

// Check describes one property check.
type Check struct {
	ID          string
	Level       string // evidence level category
	Rule        string
	Explain     string
	Assumptions []string
	// Flavours lists the builds this check runs workers in; FlavourOf picks
	// one per case (default: the first).
	Flavours  []string
	FlavourOf func(tier string, idx int) string
	Cases     func(tier string) int
	MinNT     func(tier string) int // floor for distinct non-trivial cases
	Run       func(c *Case)
	// HangIsViolation: a quiescent watchdog kill counts as a violation.
	HangIsViolation bool
	CaseTimeout     time.Duration
	MaxWorkers      int
	// Finish lets a check add to the coverage block of the evidence.
	Finish func(agg *Agg, cov map[string]interface{})
}

var checks = map[string]*Check{}

func register(c *Check) { checks[c.ID] = c }

// Agg is the parent's aggregate over all case results.
type Agg struct {
	Evaluations  int
	Held         int
	Violated     int
	Inconclusive int
	NonTrivial   int
	Keys         map[string]bool
	Sum          map[string]int64
	Max          map[string]int64
	Sets         map[string]map[string]bool
	Samples      []interface{}
	Viols        []violRec
	Notes        map[string]int
	Died         int
}

type violRec struct {
	Index int
	Viol
	Flavour string
}

func (a *Agg) add(r *Result, maxSamples int) {
	a.Evaluations++
	switch r.Status {
	case "violated":
		a.Violated++
	case "inconclusive":
		a.Inconclusive++
		a.Notes[r.Note]++
	default:
		a.Held++
	}
	if r.NonTrivial {
		a.NonTrivial++
		a.Keys[r.Key] = true
	}
	for k, v := range r.Sum {
		a.Sum[k] += v
	}
	for k, v := range r.Max {
		if v > a.Max[k] {
			a.Max[k] = v
		}
	}
	for k, vs := range r.Sets {
		m := a.Sets[k]
		if m == nil {
			m = map[string]bool{}
			a.Sets[k] = m
		}
		for _, v := range vs {
			m[v] = true
		}
	}
	if r.Sample != nil && len(a.Samples) < maxSamples {
		a.Samples = append(a.Samples, r.Sample)
	}
	for _, v := range r.Viols {
		a.Viols = append(a.Viols, violRec{Index: r.Index, Viol: v, Flavour: r.Flavour})
	}
}

// ---------------------------------------------------------------------------
// known findings

type Finding struct {
	Status   string `json:"status"` // open | fixed
	Property string `json:"property"`
	Match    string `json:"match,omitempty"` // regexp over the violation signature
	Text     string `json:"text"`
	Commit   string `json:"commit,omitempty"`
	re       *regexp.Regexp
}

func loadFindings() []*Finding {
	f, err := os.Open(filepath.Join(verifRoot, "known_findings.jsonl"))
	if err != nil {
		return nil
	}
	defer f.Close()
	var out []*Finding
	sc := bufio.NewScanner(f)
	sc.Buffer(make([]byte, 1<<20), 1<<20)
	for sc.Scan() {
		line := strings.TrimSpace(sc.Text())
		if line == "" || strings.HasPrefix(line, "#") {
			continue
		}
		var fd Finding
		if err := json.Unmarshal([]byte(line), &fd); err != nil {
			fmt.Fprintf(os.Stderr, "known_findings.jsonl: bad line: %v\n", err)
			continue
		}
		if fd.Status == "open" && fd.Match != "" {
			fd.re = regexp.MustCompile(fd.Match)
		}
		out = append(out, &fd)
	}
	return out
}

// ---------------------------------------------------------------------------
// parent

func tierOf() string {
	t := os.Getenv("VERIF_TIER")
	if t == "" {
		t = "quick"
	}
	return t
}

func seedOf() uint64 {
	s := os.Getenv("VERIF_SEED")
	if s == "" {
		return 1
	}
	v, err := strconv.ParseInt(s, 10, 64)
	if err != nil {
		return 1
	}
	return uint64(v)
}

func binFor(flavour string) string {
	if p := os.Getenv("VERIF_BIN_" + strings.ToUpper(flavour)); p != "" {
		return p
	}
	self, _ := os.Executable()
	dir := filepath.Dir(self)
	return filepath.Join(dir, "verif-"+flavour)
}

type workerLine struct {
	Start *int    `json:"start,omitempty"`
	Res   *Result `json:"res,omitempty"`
}

func runParent(ck *Check, tier string, seed uint64, only []int) int {
	t0 := time.Now()
	n := ck.Cases(tier)
	var idxs []int
	if only != nil {
		idxs = only
	} else {
		for i := 0; i < n; i++ {
			idxs = append(idxs, i)
		}
	}
	flavourOf := func(i int) string {
		if ck.FlavourOf != nil {
			return ck.FlavourOf(tier, i)
		}
		if len(ck.Flavours) > 0 {
			return ck.Flavours[0]
		}
		return "plain"
	}
	workers := runtime.NumCPU()
	if workers > 16 {
		workers = 16
	}
	if ck.MaxWorkers > 0 && workers > ck.MaxWorkers {
		workers = ck.MaxWorkers
	}
	if v := os.Getenv("VERIF_WORKERS"); v != "" {
		if w, err := strconv.Atoi(v); err == nil && w > 0 {
			workers = w
		}
	}
	// shard per flavour, round-robin
	byFl := map[string][]int{}
	for _, i := range idxs {
		f := flavourOf(i)
		byFl[f] = append(byFl[f], i)
	}
	type shard struct {
		fl    string
		cases []int
	}
	var shards []shard
	var fls []string
	for f := range byFl {
		fls = append(fls, f)
	}
	sort.Strings(fls)
	for _, f := range fls {
		cs := byFl[f]
		w := workers
		if w > len(cs) {
			w = len(cs)
		}
		parts := make([][]int, w)
		for k, i := range cs {
			parts[k%w] = append(parts[k%w], i)
		}
		for _, p := range parts {
			shards = append(shards, shard{f, p})
		}
	}
	workdir := filepath.Join(verifRoot, "work", fmt.Sprintf("%s-%d", ck.ID, os.Getpid()))
	os.MkdirAll(workdir, 0o755)
	defer os.RemoveAll(workdir)

	agg := &Agg{Keys: map[string]bool{}, Sum: map[string]int64{}, Max: map[string]int64{},
		Sets: map[string]map[string]bool{}, Notes: map[string]int{}}
	var mu sync.Mutex
	sem := make(chan struct{}, workers)
	var wg sync.WaitGroup
	timeout := ck.CaseTimeout
	if timeout == 0 {
		timeout = 180 * time.Second
	}
	for si, sh := range shards {
		wg.Add(1)
		sem <- struct{}{}
		go func(si int, sh shard) {
			defer wg.Done()
			defer func() { <-sem }()
			remaining := sh.cases
			attempt := 0
			hangs := 0
			for len(remaining) > 0 {
				if hangs >= 2 {
					// every hang costs a full watchdog period; two in one shard are evidence
					// enough, the rest of the shard is not run
					mu.Lock()
					agg.Inconclusive += len(remaining)
					agg.Evaluations += len(remaining)
					agg.Notes["not run: shard abandoned after two watchdog kills"] += len(remaining)
					mu.Unlock()
					break
				}
				attempt++
				results, inflight, died, diag := runWorker(ck, tier, seed, sh.fl, remaining, workdir, fmt.Sprintf("s%d_%d", si, attempt), timeout)
				mu.Lock()
				done := map[int]bool{}
				for _, r := range results {
					r.Flavour = sh.fl
					agg.add(r, 5)
					done[r.Index] = true
				}
				if died && diag.watchdog {
					hangs++
				}
				if died && inflight >= 0 {
					agg.Died++
					r := &Result{Index: inflight, Flavour: sh.fl}
					if diag.watchdog && !ck.HangIsViolation {
						r.Status = "inconclusive"
						r.Note = "watchdog: no progress for " + timeout.String()
					} else if diag.watchdog {
						r.Status = "violated"
						r.Viols = []Viol{{Sig: ck.ID + ":hang", Msg: "case did not finish within the watchdog period; goroutine dump in detail", Detail: diag.tail}}
					} else {
						r.Status = "violated"
						r.Viols = []Viol{{Sig: ck.ID + ":process-died:" + diag.class, Msg: "worker process died during this case: " + diag.first, Detail: diag.tail}}
					}
					agg.add(r, 5)
					done[inflight] = true
				} else if died {
					// died outside any case: harness problem
					agg.Inconclusive++
					agg.Notes["worker died outside a case: "+diag.first]++
					mu.Unlock()
					return
				}
				mu.Unlock()
				var rest []int
				for _, i := range remaining {
					if !done[i] {
						rest = append(rest, i)
					}
				}
				if len(rest) == len(remaining) {
					break // no progress; avoid looping
				}
				remaining = rest
			}
		}(si, sh)
	}
	wg.Wait()
	return finish(ck, tier, seed, agg, time.Since(t0))
}

type diagT struct {
	watchdog bool
	first    string
	class    string
	tail     string
}

func runWorker(ck *Check, tier string, seed uint64, flavour string, cases []int, workdir, tag string, timeout time.Duration) ([]*Result, int, bool, diagT) {
	out := filepath.Join(workdir, tag+".jsonl")
	logp := filepath.Join(workdir, tag+".log")
	var sb strings.Builder
	for i, c := range cases {
		if i > 0 {
			sb.WriteByte(',')
		}
		sb.WriteString(strconv.Itoa(c))
	}
	lf, _ := os.Create(logp)
	cmd := exec.Command(binFor(flavour), "worker", ck.ID, "--tier", tier, "--seed", strconv.FormatUint(seed, 10),
		"--out", out, "--cases", sb.String(), "--dir", filepath.Join(workdir, tag+".d"))
	cmd.Stdout = lf
	cmd.Stderr = lf
	cmd.Env = append(os.Environ(),
		"GORACE=halt_on_error=0 exitcode=0 log_path="+filepath.Join(workdir, tag+".race"),
		"ASAN_OPTIONS=halt_on_error=1:abort_on_error=1:detect_leaks=0",
		"GOTRACEBACK=all",
		// the workers' local time zone is not UTC (UTC-5, no daylight saving): whatever the code under
		// test does with time.Local shows against the UTC times the harness sets and decodes
		"TZ=Etc/GMT+5")
	var diag diagT
	if err := cmd.Start(); err != nil {
		lf.Close()
		diag.first = "cannot start worker: " + err.Error()
		return nil, -1, true, diag
	}
	doneCh := make(chan error, 1)
	go func() { doneCh <- cmd.Wait() }()
	var werr error
	lastSize := int64(-1)
	lastChange := time.Now()
	tick := time.NewTicker(500 * time.Millisecond)
	defer tick.Stop()
loop:
	for {
		select {
		case werr = <-doneCh:
			break loop
		case <-tick.C:
			if st, err := os.Stat(out); err == nil && st.Size() != lastSize {
				lastSize = st.Size()
				lastChange = time.Now()
			}
			if time.Since(lastChange) > timeout {
				diag.watchdog = true
				cmd.Process.Signal(syscall.SIGQUIT)
				select {
				case werr = <-doneCh:
				case <-time.After(10 * time.Second):
					cmd.Process.Kill()
					werr = <-doneCh
				}
				break loop
			}
		}
	}
	lf.Close()
	// parse results
	var results []*Result
	inflight := -1
	if f, err := os.Open(out); err == nil {
		sc := bufio.NewScanner(f)
		sc.Buffer(make([]byte, 1<<20), 64<<20)
		for sc.Scan() {
			var wl workerLine
			if json.Unmarshal(sc.Bytes(), &wl) != nil {
				continue
			}
			if wl.Start != nil {
				inflight = *wl.Start
			}
			if wl.Res != nil {
				results = append(results, wl.Res)
				if wl.Res.Index == inflight {
					inflight = -1
				}
			}
		}
		f.Close()
	}
	// race reports are attributed by the worker itself (it reads its own log
	// after each case); here only the death diagnosis is left.
	died := werr != nil || diag.watchdog
	if died {
		b, _ := os.ReadFile(logp)
		s := string(b)
		diag.first, diag.class = classifyDeath(s)
		if len(s) > 6000 {
			s = s[:3000] + "\n...\n" + s[len(s)-3000:]
		}
		diag.tail = s
		if diag.first == "" && werr != nil {
			diag.first = werr.Error()
		}
	}
	return results, inflight, died, diag
}

var (
	rePanic = regexp.MustCompile(`(?m)^(panic: .*|fatal error: .*|==\d+==ERROR: AddressSanitizer: [^\n]*|SIGQUIT: quit)$`)
)

func classifyDeath(log string) (first, class string) {
	m := rePanic.FindString(log)
	if m == "" {
		return "", "unknown"
	}
	first = m
	cl := m
	if i := strings.Index(cl, " ["); i > 0 {
		cl = cl[:i]
	}
	// strip variable parts: digits and quoted text
	cl = regexp.MustCompile(`[0-9]+`).ReplaceAllString(cl, "N")
	if len(cl) > 80 {
		cl = cl[:80]
	}
	cl = strings.ReplaceAll(cl, " ", "_")
	return first, cl
}

func finish(ck *Check, tier string, seed uint64, agg *Agg, wall time.Duration) int {
	findings := loadFindings()
	knownHit := map[*Finding]int{}
	var fresh []violRec
	for _, v := range agg.Viols {
		matched := false
		for _, f := range findings {
			if f.Status == "open" && f.Property == ck.ID && f.re != nil && f.re.MatchString(v.Sig) {
				knownHit[f]++
				matched = true
				break
			}
		}
		if !matched {
			fresh = append(fresh, v)
		}
	}
	for f, n := range knownHit {
		fmt.Printf("KNOWN-FINDING: property=%s %s (seen %d times in this run)\n", ck.ID, f.Text, n)
	}
	// replay files for fresh violations (one per distinct signature, max 10)
	os.MkdirAll(filepath.Join(verifRoot, "replays"), 0o755)
	seenSig := map[string]bool{}
	for _, v := range fresh {
		if seenSig[v.Sig] || len(seenSig) >= 10 {
			continue
		}
		seenSig[v.Sig] = true
		path := filepath.Join(verifRoot, "replays", fmt.Sprintf("%s-%s.json", ck.ID, shortHash(v.Sig+fmt.Sprint(seed, v.Index))))
		rec := map[string]interface{}{
			"property": ck.ID, "seed": seed, "tier": tier, "index": v.Index, "flavour": v.Flavour,
			"sig": v.Sig, "msg": v.Msg, "detail": v.Detail,
			"replay_cmd": fmt.Sprintf("./run.sh replay %s", path),
		}
		b, _ := json.MarshalIndent(rec, "", " ")
		os.WriteFile(path, b, 0o644)
		fmt.Printf("VIOLATION property=%s replay=%s\n", ck.ID, path)
		fmt.Printf("  sig=%s\n  %s\n", v.Sig, v.Msg)
	}
	distinct := len(agg.Keys)
	cov := map[string]interface{}{
		"evaluations":         agg.Evaluations,
		"distinct_nontrivial": distinct,
		"nontrivial_cases":    agg.NonTrivial,
		"rule":                ck.Rule,
		"samples":             agg.Samples,
		"held":                agg.Held,
		"inconclusive":        agg.Inconclusive,
		"violated_cases":      agg.Violated,
		"known_findings_hit":  len(knownHit),
		"worker_deaths":       agg.Died,
		"counters":            agg.Sum,
		"maxima":              agg.Max,
	}
	if ck.Explain != "" {
		cov["explanation"] = ck.Explain
	}
	ds := map[string]int{}
	for k, m := range agg.Sets {
		ds[k] = len(m)
	}
	cov["distinct"] = ds
	if len(agg.Notes) > 0 {
		cov["inconclusive_notes"] = agg.Notes
	}
	if len(agg.Samples) == 0 {
		cov["samples"] = []interface{}{"(no case produced a sample)"}
	}
	if ck.Finish != nil {
		ck.Finish(agg, cov)
	}
	ev := map[string]interface{}{
		"property_id": ck.ID,
		"tier":        tier,
		"seed":        int64(seed),
		"level":       ck.Level,
		"coverage":    cov,
		"assumptions": ck.Assumptions,
		"wall_s":      wall.Seconds(),
		"violations":  len(fresh),
	}
	os.MkdirAll(filepath.Join(verifRoot, "evidence"), 0o755)
	b, _ := json.MarshalIndent(ev, "", " ")
	evName := ck.ID + ".json"
	if os.Getenv("VERIF_ONLY") != "" {
		// a run restricted to selected cases is not the registered check: keep its record apart
		evName = ck.ID + ".partial.json"
	}
	os.WriteFile(filepath.Join(verifRoot, "evidence", evName), b, 0o644)

	fmt.Printf("%s tier=%s seed=%d: %d cases (%d held, %d violated, %d inconclusive), %d distinct non-trivial, %.1fs\n",
		ck.ID, tier, seed, agg.Evaluations, agg.Held, agg.Violated, agg.Inconclusive, distinct, wall.Seconds())
	var keys []string
	for k := range agg.Sum {
		keys = append(keys, k)
	}
	sort.Strings(keys)
	for _, k := range keys {
		fmt.Printf("  %-40s %d\n", k, agg.Sum[k])
	}
	keys = keys[:0]
	for k := range agg.Max {
		keys = append(keys, k)
	}
	sort.Strings(keys)
	for _, k := range keys {
		fmt.Printf("  max %-36s %d\n", k, agg.Max[k])
	}
	keys = keys[:0]
	for k := range ds {
		keys = append(keys, k)
	}
	sort.Strings(keys)
	for _, k := range keys {
		fmt.Printf("  distinct %-31s %d\n", k, ds[k])
	}
	for k, n := range agg.Notes {
		fmt.Printf("  inconclusive: %s ×%d\n", k, n)
	}
	if len(fresh) > 0 {
		return 1
	}
	min := 2
	if ck.MinNT != nil {
		min = ck.MinNT(tier)
	}
	if os.Getenv("VERIF_ONLY") != "" {
		min = 0
	}
	if distinct < min {
		fmt.Printf("INCONCLUSIVE property=%s: only %d distinct non-trivial cases (floor %d)\n", ck.ID, distinct, min)
		return 2
	}
	if agg.Inconclusive*5 > agg.Evaluations && agg.Evaluations > 0 {
		fmt.Printf("INCONCLUSIVE property=%s: %d of %d cases inconclusive\n", ck.ID, agg.Inconclusive, agg.Evaluations)
		return 2
	}
	return 0
}

// ---------------------------------------------------------------------------
// worker

func runWorkerMain(ck *Check, tier string, seed uint64, cases []int, outPath, dir string, verbose bool) {
	var out *os.File
	if outPath != "" {
		var err error
		out, err = os.OpenFile(outPath, os.O_CREATE|os.O_WRONLY|os.O_APPEND, 0o644)
		if err != nil {
			fmt.Fprintln(os.Stderr, err)
			os.Exit(3)
		}
		defer out.Close()
	}
	if dir != "" {
		os.MkdirAll(dir, 0o755)
	}
	flavour := os.Getenv("VERIF_FLAVOUR")
	for _, idx := range cases {
		if out != nil {
			b, _ := json.Marshal(workerLine{Start: &idx})
			out.Write(append(b, '\n'))
		}
		fmt.Printf("case-start %s %d\n", ck.ID, idx)
		res := &Result{Index: idx, Status: "held"}
		c := &Case{ID: ck.ID, Tier: tier, Seed: seed, Index: idx, R: NewRng(seed, ck.ID, idx), Res: res,
			Verbose: verbose, Flavour: flavour, Dir: dir}
		if out != nil {
			c.hb = func() { out.Write([]byte("{\"hb\":1}\n")) }
		}
		ck.Run(c)
		// quiescent point: a finalizer panic (dirty tree collected) is
		// attributed to the case that just ended
		runtime.GC()
		runtime.GC()
		collectRaceReports(c)
		if out != nil {
			b, err := json.Marshal(workerLine{Res: res})
			if err != nil {
				res.Sample = fmt.Sprintf("unmarshalable sample: %v", err)
				res.Viols = nil
				b, _ = json.Marshal(workerLine{Res: res})
			}
			out.Write(append(b, '\n'))
		}
		if verbose {
			b, _ := json.MarshalIndent(res, "", " ")
			fmt.Println(string(b))
		}
	}
}
