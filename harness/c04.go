package main

import (
	"fmt"
	"sort"
	"strings"
	"time"

	"verifh/fs3"
	"verifh/walk"
)

func init() {
	register(&Check{
		ID:    "C04",
		Level: "fault_enumeration",
		Rule: "each case is one subject on a table with history (entries_per_node 2,3,4,4096; 5-80 pre-loaded rows; 1-3 earlier writers): (T) an explicit or autocommit transaction of 1-6 INSERT/UPDATE/DELETE statements, (M) the implicit merge commit of a read-write open over 2-4 unmerged versions, (V) s3db_vacuum with a cutoff that reclaims history. " +
			"The subject runs once fault-free to count its K mutating requests and to record the rows before (D0) and after (D1); then for EVERY k in 0..K the pre-state is restored, the subject re-runs with the client crashing right after its k-th mutating request (all later requests fail, the connection is abandoned), and on the frozen bucket a read-only open, a read-write recovery open and another read-only open must each succeed and show exactly D0 or D1, all three the same, D1 if every statement and the COMMIT had reported success; the bucket walker must find every listed current version complete. " +
			"For transactions two more interruptions run at the same positions with the same demands: request k fails once and the transaction is rolled back and retried on the same connection (every k; same write time, so the retry builds the nodes whose upload failed); request k blocks until the connection's deadline expires (2 seeded k). " +
			"non-trivial = a subject with K>=3 whose crash points produced both outcomes (old and new) or whose flush wrote >=2 node objects; distinct = hash of (subject, K)",
		Flavours: []string{"plain"},
		Cases: func(tier string) int {
			if tier == "thorough" {
				return 900
			}
			return 48
		},
		MinNT: func(tier string) int {
			if tier == "thorough" {
				return 300
			}
			return 16
		},
		Run: runC04,
		Assumptions: []string{
			"a crash is modelled as: the k-th mutating request takes effect, no later request of that client does (S3 requests are atomic)",
			"node PUTs of one flush are issued concurrently, so which of them are among the first k varies between runs; each run is one sample of 'k of them landed'",
			"exhaustive over k per subject, not over subjects; garbage node objects after a crash are allowed",
		},
	})
}

type c04stmt struct {
	q    string
	args []interface{}
}

func runC04(c *Case) {
	r := c.R
	kind := []string{"T", "T", "M", "T", "V", "M"}[c.Index%6]
	epn := []int{2, 3, 4, 4096}[r.Intn(4)]
	prefix := "p"
	base := walk.Base(prefix)
	st := newStore()
	defer dropStore(st)
	cols := "k PRIMARY KEY, a, b"
	var setupLog []string
	tsec := 100
	mk := func(conn *Conn, client string) (string, error) {
		t := tname(c, client)
		return t, conn.Create(TableSpec{Name: t, Cols: cols, Store: st.Name, Client: client, Prefix: prefix, EPN: epn})
	}
	// ------------------------------------------------------------ history
	nrows := r.Range(5, 80)
	nwriters := 1
	if kind == "M" {
		nwriters = r.Range(2, 4)
	}
	var conns []*Conn
	var tabs []string
	defer func() {
		for _, cn := range conns {
			cn.Close()
		}
	}()
	for i := 0; i < nwriters; i++ {
		cn := OpenConn(fmt.Sprintf("h%d", i))
		conns = append(conns, cn)
		t, err := mk(cn, fmt.Sprintf("h%d", i))
		if err != nil {
			c.Violate("C04:setup", err.Error(), nil)
			return
		}
		tabs = append(tabs, t)
	}
	// first writer loads, everyone refreshes, then they diverge
	conns[0].SetWriteTime(tsec)
	conns[0].Exec("begin")
	for i := 0; i < nrows; i++ {
		conns[0].Exec("insert into "+tabs[0]+" values (?,?,?)", int64(i*2), fmt.Sprintf("pre%d", i), int64(i))
	}
	if err := conns[0].Exec("commit"); err != nil {
		c.Violate("C04:setup", err.Error(), nil)
		return
	}
	for i := 1; i < nwriters; i++ {
		conns[i].Exec("select s3db_refresh('" + tabs[i] + "')")
	}
	for round := 0; round < r.Range(1, 4); round++ {
		for i := 0; i < nwriters; i++ {
			tsec++
			conns[i].SetWriteTime(tsec)
			k := int64(r.Intn(nrows * 2))
			switch r.Intn(3) {
			case 0:
				conns[i].Exec("insert into "+tabs[i]+" values (?,?,?)", k, fmt.Sprintf("h%d.%d", i, round), nil)
			case 1:
				conns[i].Exec("update "+tabs[i]+" set b=? where k=?", fmt.Sprintf("u%d.%d", i, round), k)
			default:
				conns[i].Exec("delete from "+tabs[i]+" where k=?", k)
			}
			setupLog = append(setupLog, fmt.Sprintf("h%d round %d key %d", i, round, k))
		}
	}
	for _, cn := range conns {
		cn.Close()
	}
	conns = nil
	pre := st.Snapshot()
	unmerged := len(walk.VersionNames(pre, base, "current"))

	// ------------------------------------------------------------ the subject
	var stmts []c04stmt
	explicitTx := r.Bool()
	cutoff := "2999-01-01 00:00:00"
	switch kind {
	case "T":
		n := r.Range(1, 6)
		if !explicitTx {
			n = 1
		}
		for i := 0; i < n; i++ {
			k := int64(r.Intn(nrows*2 + 4))
			switch r.Intn(4) {
			case 0, 1:
				stmts = append(stmts, c04stmt{"insert into %T values (?,?,?)", []interface{}{k + 1, fmt.Sprintf("tx%d", i), int64(i)}})
			case 2:
				stmts = append(stmts, c04stmt{"update %T set a=? where k=?", []interface{}{fmt.Sprintf("txu%d", i), k - k%2}})
			default:
				stmts = append(stmts, c04stmt{"delete from %T where k=?", []interface{}{k - k%2}})
			}
		}
		if r.Intn(4) == 0 {
			// a big insert so that the flush writes many node objects
			for i := 0; i < 40; i++ {
				stmts = append(stmts, c04stmt{"insert into %T values (?,?,?)", []interface{}{int64(100000 + i), "bulk", nil}})
			}
			explicitTx = true
		}
	}
	subjectDesc := map[string]interface{}{"kind": kind, "entries_per_node": epn, "rows": nrows, "unmerged_versions": unmerged, "explicit_tx": explicitTx}
	{
		var ss []string
		for _, s := range stmts {
			var as []string
			for _, a := range s.args {
				as = append(as, lit(a))
			}
			ss = append(ss, s.q+" -- "+strings.Join(as, ","))
		}
		if len(ss) > 8 {
			ss = append(ss[:8], fmt.Sprintf("... %d more", len(ss)-8))
		}
		subjectDesc["statements"] = ss
	}
	fail := func(sig, msg string) { c.Violate("C04:"+kind+":"+sig, msg, subjectDesc) }

	freshDump := func(s *fs3.Store, ro bool, client string) ([]string, error) {
		cn := OpenConn(client)
		defer cn.Close()
		t := tname(c, client)
		if err := cn.Create(TableSpec{Name: t, Cols: cols, Store: s.Name, Client: client, Prefix: prefix, EPN: epn, ReadOnly: ro}); err != nil {
			return nil, err
		}
		return cn.Rows("select * from " + t + " order by k")
	}
	// runSubject executes the subject against store s (already holding the
	// pre-state) and reports whether it was acknowledged.
	// retry: a failed transaction (T) is rolled back and run once more on the same connection,
	// faults cleared; the acknowledgement reported is then the second attempt's
	retry := false
	// deadline: the connection's deadline is set this many seconds ahead before the subject runs
	deadline := 0
	runSubject := func(s *fs3.Store, arm func(cl *fs3.Client)) (ack bool) {
		ep := fs3.Endpoint(s.Name, "subj")
		setPerm(ep, func(roots []string) []string { o := append([]string(nil), roots...); sort.Strings(o); return o })
		defer setPerm(ep, nil)
		cl := s.Client("subj")
		cn := OpenConn("subj")
		defer cn.Close()
		t := tname(c, "subj")
		spec := TableSpec{Name: t, Cols: cols, Store: s.Name, Client: "subj", Prefix: prefix, EPN: epn}
		switch kind {
		case "M":
			cl.ResetCounters()
			arm(cl)
			return cn.Create(spec) == nil
		case "V":
			if err := cn.Create(spec); err != nil {
				return false
			}
			cl.ResetCounters()
			arm(cl)
			res, err := cn.Rows("select vacuum_error from s3db_vacuum('"+t+"', ?)", cutoff)
			return err == nil && len(res) == 1 && res[0] == "NULL"
		default:
			if err := cn.Create(spec); err != nil {
				return false
			}
			cn.SetWriteTime(tsec + 10)
			if deadline > 0 {
				cn.Exec("update s3db_conn set deadline=?", time.Now().UTC().Add(time.Duration(deadline)*time.Second).Format("2006-01-02 15:04:05"))
			}
			cl.ResetCounters()
			arm(cl)
			attempt := func() bool {
				ok := true
				if explicitTx {
					if cn.Exec("begin") != nil {
						ok = false
					}
				}
				for _, sm := range stmts {
					if err := cn.Exec(strings.ReplaceAll(sm.q, "%T", t), sm.args...); err != nil && errClass(err) == "error" {
						ok = false
					}
				}
				if explicitTx {
					if cn.Exec("commit") != nil {
						ok = false
					}
				}
				return ok
			}
			ok := attempt()
			if !ok && retry {
				cl.ClearFaults()
				cn.Exec("rollback")
				c.Count("retried_transactions", 1)
				ok = attempt()
				if ok {
					c.Count("retried_transactions_acknowledged", 1)
				}
			}
			return ok
		}
	}
	// for M and V the subject's own open must be deterministic: with one current version it commits nothing
	if kind != "M" && unmerged != 1 {
		// bring the bucket to a single version first
		cn := OpenConn("sync")
		t, _ := mk(cn, "sync")
		_ = t
		cn.Close()
		pre = st.Snapshot()
		unmerged = len(walk.VersionNames(pre, base, "current"))
	}
	d0, err := freshDump(st, true, "d0")
	if err != nil {
		fail("setup-open", err.Error())
		return
	}
	// fault-free reference run
	ref := newStore()
	ref.Restore(pre)
	ack := runSubject(ref, func(cl *fs3.Client) {})
	_, K := ref.Client("subj").Counters()
	if !ack {
		dropStore(ref)
		fail("reference-run-failed", "the subject failed without any fault")
		return
	}
	d1, err := freshDump(ref, true, "d1")
	nodePuts := 0
	for _, ev := range ref.Log() {
		if ev.Client == "subj" && ev.Op == fs3.OpPut && strings.Contains(ev.Key, "/node/") {
			nodePuts++
		}
	}
	dropStore(ref)
	if err != nil {
		fail("reference-open", err.Error())
		return
	}
	c.MaxOf("mutations_per_subject", int64(K))
	c.Count("subjects", 1)
	c.Count("subjects_"+kind, 1)
	sawOld, sawNew := false, false
	same := firstDiff(d0, d1) == ""
	// besides the crash at every k, a transaction (T) is also: failed once at request k and retried on
	// the same connection (every k), and cut off by the connection's deadline at request k (2 seeded k)
	type point struct {
		k    int
		mode string
	}
	var points []point
	deadlineAt := map[int]bool{}
	if kind == "T" && K >= 1 {
		deadlineAt[1+r.Intn(K)] = true
		deadlineAt[1+r.Intn(K)] = true
	}
	for k := 0; k <= K; k++ {
		points = append(points, point{k, "crash"})
		if kind == "T" && k >= 1 {
			points = append(points, point{k, "error-retry"})
			if deadlineAt[k] {
				points = append(points, point{k, "deadline"})
			}
		}
	}
	for _, pt := range points {
		if c.Res.Status == "violated" {
			break
		}
		k := pt.k
		s2 := newStore()
		s2.Restore(pre)
		retry, deadline = pt.mode == "error-retry", 0
		if pt.mode == "deadline" {
			deadline = 2
		}
		acked := runSubject(s2, func(cl *fs3.Client) {
			switch {
			case pt.mode == "error-retry":
				cl.AddFault(fs3.Fault{AtMut: k, Action: "error"})
			case pt.mode == "deadline":
				cl.AddFault(fs3.Fault{AtMut: k, Action: "block"})
			case k == 0:
				cl.AddFault(fs3.Fault{AtMut: 1, Action: "crash-before"})
			default:
				cl.AddFault(fs3.Fault{AtMut: k, Action: "crash-after"})
			}
		})
		retry, deadline = false, 0
		c.Count("crash_points", 1)
		c.Count("points_"+pt.mode, 1)
		if acked {
			c.Count("crash_points_acknowledged", 1)
		}
		what := map[string]string{"crash": "crash after", "error-retry": "one failure, then a retry on the same connection, at", "deadline": "deadline expiring at"}[pt.mode]
		sfx := ""
		if pt.mode != "crash" {
			sfx = ":" + pt.mode
		}
		frozen := s2.Snapshot()
		var first []string
		for i, ro := range []bool{true, false, true} {
			d, err := freshDump(s2, ro, fmt.Sprintf("rec%d", i))
			where := fmt.Sprintf("%s mutating request %d of %d (acknowledged=%v), recovery open %d (readonly=%v)", what, k, K, acked, i+1, ro)
			if err != nil {
				fail("open-fails"+sfx, where+": "+err.Error())
				break
			}
			isOld := firstDiff(d0, d) == ""
			isNew := firstDiff(d1, d) == ""
			if !isOld && !isNew {
				fail("mixture"+sfx, fmt.Sprintf("%s shows neither the old nor the new contents: vs old: %s; vs new: %s", where, firstDiff(d0, d), firstDiff(d1, d)))
				break
			}
			if acked && !isNew {
				fail("acknowledged-but-old"+sfx, where+" shows the old contents although the commit was acknowledged: "+firstDiff(d1, d))
				break
			}
			if i == 0 {
				first = d
				if !same {
					if isNew {
						sawNew = true
					} else {
						sawOld = true
					}
				}
			} else if firstDiff(first, d) != "" {
				fail("changes-after-recovery"+sfx, where+" differs from the first recovery open: "+firstDiff(first, d))
				break
			}
		}
		if c.Res.Status != "violated" && kind != "V" {
			// a version object that existed before the subject still exists somewhere (C11 relies on it)
			for _, wh := range []string{"current", "merged"} {
				for _, n := range walk.VersionNames(pre, base, wh) {
					if _, _, ok := walk.FindVersion(frozen, base, n); !ok {
						fail("version-object-lost"+sfx, fmt.Sprintf("%s mutating request %d of %d: version %s existed under root/%s before and is now neither under root/current nor root/merged", what, k, K, n, wh))
						break
					}
					c.Count("version_objects_tracked", 1)
				}
			}
		}
		if c.Res.Status != "violated" {
			for _, n := range walk.VersionNames(frozen, base, "current") {
				v := walk.Walk(frozen, base, n)
				c.Count("current_versions_walked", 1)
				if len(v.Problems) > 0 {
					fail("current-version-incomplete"+sfx, fmt.Sprintf("%s mutating request %d of %d: version %s listed under root/current: %s", what, k, K, n, v.Problems[0]))
					break
				}
			}
		}
		dropStore(s2)
	}
	if sawOld {
		c.Count("subjects_with_old_outcome", 1)
	}
	if sawNew {
		c.Count("subjects_with_new_outcome", 1)
	}
	if K >= 3 && ((sawOld && sawNew) || nodePuts >= 2 || kind != "T") {
		c.NonTrivial(fmt.Sprint(subjectDesc, K))
	}
	if c.Index < 6 {
		subjectDesc["K"] = K
		subjectDesc["node_puts"] = nodePuts
		c.Res.Sample = subjectDesc
	}
	_ = setupLog
}
