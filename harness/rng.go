package main

import (
	"hash/fnv"
	"math"
)

// Rng is a splitmix64 generator; all case lists are a function of
// (VERIF_SEED, property id, case index) through it.
type Rng struct{ s uint64 }

func NewRng(seed uint64, id string, idx int) *Rng {
	h := fnv.New64a()
	h.Write([]byte(id))
	r := &Rng{s: seed*0x9E3779B97F4A7C15 ^ h.Sum64() ^ (uint64(idx)+1)*0xBF58476D1CE4E5B9}
	r.U64()
	r.U64()
	return r
}

func (r *Rng) U64() uint64 {
	r.s += 0x9E3779B97F4A7C15
	z := r.s
	z = (z ^ (z >> 30)) * 0xBF58476D1CE4E5B9
	z = (z ^ (z >> 27)) * 0x94D049BB133111EB
	return z ^ (z >> 31)
}

func (r *Rng) Intn(n int) int {
	if n <= 0 {
		return 0
	}
	return int(r.U64() % uint64(n))
}

// Range returns a value in [lo, hi].
func (r *Rng) Range(lo, hi int) int { return lo + r.Intn(hi-lo+1) }

func (r *Rng) Bool() bool { return r.U64()&1 == 1 }

func (r *Rng) Chance(p float64) bool { return r.Float() < p }

func (r *Rng) Float() float64 { return float64(r.U64()>>11) / float64(1<<53) }

func (r *Rng) Perm(n int) []int {
	p := make([]int, n)
	for i := range p {
		p[i] = i
	}
	for i := n - 1; i > 0; i-- {
		j := r.Intn(i + 1)
		p[i], p[j] = p[j], p[i]
	}
	return p
}

func (r *Rng) Pick(ss []string) string { return ss[r.Intn(len(ss))] }

func (r *Rng) PickInt(ss []int) int { return ss[r.Intn(len(ss))] }

func (r *Rng) Bytes(n int) []byte {
	b := make([]byte, n)
	for i := range b {
		b[i] = byte(r.U64())
	}
	return b
}

func (r *Rng) Fork() *Rng { return &Rng{s: r.U64()} }

func (r *Rng) F64Bits() float64 {
	for {
		f := math.Float64frombits(r.U64())
		if !math.IsNaN(f) {
			return f
		}
	}
}
