package main

import (
	"fmt"
	"sort"
	"strings"

	"verifh/fs3"
	"verifh/walk"
)

func init() {
	register(&Check{
		ID:    "C01",
		Level: "exploration",
		Rule: "phase A builds a version set: 3-5 writers joining at random times (so versions fork from different ancestors) run conflicting INSERT/UPDATE/DELETE statements with distinct write times and never refresh; " +
			"phase B replays 8 merge schedules on copies of the bucket: frontier versions are withheld (the exact inverse of the commit protocol), intermediate read-write openers commit partial merges under a chosen permutation of the version list (hook H2), retired ancestors are put back into root/current, withheld commits are revealed one by one; " +
			"after everything is revealed, read-only opens under every permutation of the version list (all n! for n<=4, 24 sampled beyond), two read-write opens and one more read-only open must all return identical rows across all schedules, the second read-write open must PUT nothing under root/ and leave s3db_version() unchanged. " +
			"appended cases (c01sub.go) fold 3-4 writers' rows of one key, built as Update/Delete/Insert build them from statements with nanosecond-distinct write times, through MergeRows in every order and grouping: all folds must show the same row; " +
			"non-trivial = >=3 frontier versions and a key with conflicting statements from >=2 writers; distinct = per-key statement pattern + DAG shape",
		Flavours: []string{"plain"},
		Cases: func(tier string) int {
			// the SQL cases, then the sub-second row-merge cases (c01sub.go)
			if tier == "thorough" {
				return 3000 + 10*c01SubExtra
			}
			return 300 + c01SubExtra
		},
		MinNT: func(tier string) int {
			if tier == "thorough" {
				return 1200
			}
			return 100
		},
		Run: runC01,
		Assumptions: []string{
			"model-free: only equality of visible rows between opens is demanded (object bytes and version names may differ)",
			"write times are distinct per key",
		},
	})
}

func permutations(n int, r *Rng, max int) [][]int {
	if n <= 4 {
		var out [][]int
		var rec func(cur []int, used []bool)
		rec = func(cur []int, used []bool) {
			if len(cur) == n {
				out = append(out, append([]int(nil), cur...))
				return
			}
			for i := 0; i < n; i++ {
				if !used[i] {
					used[i] = true
					rec(append(cur, i), used)
					used[i] = false
				}
			}
		}
		rec(nil, make([]bool, n))
		return out
	}
	var out [][]int
	for i := 0; i < max; i++ {
		out = append(out, r.Perm(n))
	}
	return out
}

// permFunc applies a permutation (indices into the sorted list) to whatever
// list mergeRoots presents; lists of another length are rotated by perm[0].
func permFunc(perm []int) func([]string) []string {
	return func(roots []string) []string {
		s := append([]string(nil), roots...)
		sort.Strings(s)
		if len(perm) == len(s) {
			out := make([]string, len(s))
			for i, p := range perm {
				out[i] = s[p]
			}
			return out
		}
		if len(s) > 1 && len(perm) > 0 {
			k := perm[0] % len(s)
			s = append(s[k:], s[:k]...)
			if len(perm) > 1 && perm[1]%2 == 1 {
				for i, j := 0, len(s)-1; i < j; i, j = i+1, j-1 {
					s[i], s[j] = s[j], s[i]
				}
			}
		}
		return s
	}
}

type c01open struct {
	dump    []string
	version string
	puts    int // PUTs under root/ issued by this open
}

func c01Open(c *Case, st *fs3.Store, prefix string, epn int, readOnly bool, perm []int, client string) (*c01open, error) {
	conn := OpenConn(client)
	defer conn.Close()
	t := tname(c, "o")
	ep := fs3.Endpoint(st.Name, client)
	setPerm(ep, permFunc(perm))
	defer setPerm(ep, nil)
	n0 := st.LogLen()
	spec := TableSpec{Name: t, Cols: "k PRIMARY KEY, a, b, c", Store: st.Name, Client: client, Prefix: prefix, EPN: epn, ReadOnly: readOnly}
	if err := conn.Create(spec); err != nil {
		return nil, err
	}
	d, err := conn.Dump(t)
	if err != nil {
		return nil, err
	}
	v, err := conn.Scalar("select s3db_version('" + t + "')")
	if err != nil {
		return nil, err
	}
	o := &c01open{dump: d, version: v}
	for _, ev := range st.LogSince(n0) {
		if (ev.Op == fs3.OpPut || ev.Op == fs3.OpDel) && strings.Contains(ev.Key, "/root/") {
			o.puts++
		}
	}
	return o, nil
}

func runC01(c *Case) {
	if c.Index >= 3000 || c.Tier != "thorough" && c.Index >= 300 {
		c01SubSecond(c)
		return
	}
	if c.Index%50 == 49 {
		c01Wide(c)
		return
	}
	r := c.R
	nw := r.Range(3, 5)
	if c.Index%10 == 9 {
		nw = 6
	}
	nkeys := r.Range(1, 3)
	epn := []int{4096, 4096, 2, 3}[r.Intn(4)]
	nst := r.Range(16, 40)
	// phase A: some writers fork from the empty table, the others join later
	w, err := newWorld(c, r.Range(1, 3), epn)
	defer w.close()
	if err != nil {
		c.Violate("C01:create", err.Error(), nil)
		return
	}
	times := r.Perm(nst + 5)
	for i := 0; i < nst; i++ {
		if len(w.ws) < nw && r.Chance(0.2) {
			if _, err := w.addWriter(); err != nil {
				c.Violate("C01:create", err.Error(), w.log)
				return
			}
			w.logf("w%d JOINS", len(w.ws)-1)
		}
		wi := r.Intn(len(w.ws))
		s := HStmt{W: wi, Key: 1 + r.Intn(nkeys), T: 10 + times[i]}
		tag := fmt.Sprintf("t:w%ds%d", wi, i)
		// one value in five is one of two common values: concurrent versions then hold the same
		// value for a column with different assignment times
		val := func(sfx string) string {
			if r.Intn(5) == 0 {
				return []string{"t:x", "t:y"}[r.Intn(2)]
			}
			return tag + sfx
		}
		switch x := r.Intn(100); {
		case x < 38:
			s.Kind = "ins"
			s.Cols = map[string]string{}
			for _, col := range hcols {
				if r.Intn(4) != 0 {
					s.Cols[col] = val(col)
				}
			}
		case x < 72:
			s.Kind = "upd"
			s.Cols = map[string]string{hcols[r.Intn(3)]: val("")}
			if r.Bool() {
				s.Cols[hcols[r.Intn(3)]] = val("x")
			}
		default:
			s.Kind = "del"
		}
		if _, err := w.exec(s); err != nil {
			c.Violate("C01:statement-error", err.Error(), w.log)
			return
		}
	}
	for len(w.ws) < nw {
		// late joiners that write one row each, so that the frontier is wide
		hw, err := w.addWriter()
		if err != nil {
			c.Violate("C01:create", err.Error(), w.log)
			return
		}
		_ = hw
		wi := len(w.ws) - 1
		w.exec(HStmt{W: wi, Kind: "ins", Key: 1 + r.Intn(nkeys), T: 1000 + wi, Cols: map[string]string{"a": fmt.Sprintf("t:late%d", wi)}})
	}
	base := walk.Base(w.prefix)
	b0 := w.st.Snapshot()
	frontier := walk.VersionNames(b0, base, "current")
	c.MaxOf("frontier_versions", int64(len(frontier)))
	shape, conflicts := conflictShape(w.stmts)
	parents := map[string][]string{}
	for _, wh := range []string{"current", "merged"} {
		for _, name := range walk.VersionNames(b0, base, wh) {
			if rt, err := walk.ParseRoot(b0[base+"root/"+wh+"/"+name]); err == nil {
				parents[name] = rt.Parents
			}
		}
	}
	dag := ""
	{
		// DAG shape: sorted list of (depth-rank) parent counts
		var ps []string
		for _, f := range frontier {
			ps = append(ps, fmt.Sprint(len(parents[f])))
		}
		sort.Strings(ps)
		dag = strings.Join(ps, ",") + fmt.Sprintf("/%d", len(parents))
	}

	var ref []string
	refFrom := ""
	opens := 0
	compare := func(sched int, what string, d []string, trace []string) bool {
		opens++
		if ref == nil {
			ref = d
			refFrom = fmt.Sprintf("schedule %d %s", sched, what)
			if ref == nil {
				ref = []string{}
			}
			return true
		}
		if df := firstDiff(ref, d); df != "" {
			c.Violate("C01:dumps-differ", fmt.Sprintf("schedule %d %s sees different rows than %s: %s", sched, what, refFrom, df),
				map[string]interface{}{"history": w.log, "schedule": trace})
			return false
		}
		return true
	}
	const nsched = 8
	for sched := 0; sched < nsched && c.Res.Status != "violated"; sched++ {
		st := newStore()
		st.Restore(b0)
		st.PageSize = []int{0, 1, 2}[sched%3] // LIST answers in pages: the opener has to follow continuation tokens
		var trace []string
		hidden := map[string]bool{}
		hide := func(v string) {
			key := base + "root/current/" + v
			b, ok := st.GetRaw(key)
			if !ok {
				return
			}
			_ = b
			st.DelRaw(key)
			hidden[v] = true
			for _, p := range parents[v] {
				if pb, ok := st.GetRaw(base + "root/merged/" + p); ok {
					st.PutRaw(base+"root/current/"+p, pb)
				}
			}
			trace = append(trace, "withhold "+v)
		}
		reveal := func(v string) {
			st.PutRaw(base+"root/current/"+v, b0[base+"root/current/"+v])
			for _, p := range parents[v] {
				if pb, ok := st.GetRaw(base + "root/current/" + p); ok {
					st.PutRaw(base+"root/merged/"+p, pb)
					st.DelRaw(base + "root/current/" + p)
				}
			}
			delete(hidden, v)
			trace = append(trace, "reveal "+v)
		}
		unretire := func() {
			ms := st.Keys(base + "root/merged/")
			if len(ms) == 0 {
				return
			}
			k := ms[r.Intn(len(ms))]
			b, _ := st.GetRaw(k)
			name := strings.TrimPrefix(k, base+"root/merged/")
			st.PutRaw(base+"root/current/"+name, b)
			trace = append(trace, "unretire "+name)
			c.Count("ancestors_remerged", 1)
		}
		cl := 0
		client := func() string { cl++; return fmt.Sprintf("s%dc%d", sched, cl) }
		if sched > 0 {
			nh := r.Range(1, len(frontier)-1)
			if len(frontier) < 2 {
				nh = 0
			}
			for _, i := range r.Perm(len(frontier))[:nh] {
				hide(frontier[i])
			}
			for len(hidden) > 0 {
				switch r.Intn(4) {
				case 0, 1:
					n := len(st.Keys(base + "root/current/"))
					o, err := c01Open(c, st, w.prefix, epn, false, r.Perm(n), client())
					trace = append(trace, fmt.Sprintf("intermediate read-write open over %d versions", n))
					c.Count("partial_merges_committed", 1)
					if err != nil {
						c.Violate("C01:open-error", "intermediate open failed: "+err.Error(), map[string]interface{}{"history": w.log, "schedule": trace})
						break
					}
					_ = o
				case 2:
					unretire()
				}
				if c.Res.Status == "violated" {
					break
				}
				// reveal one
				var hs []string
				for h := range hidden {
					hs = append(hs, h)
				}
				sort.Strings(hs)
				reveal(hs[r.Intn(len(hs))])
			}
			if r.Bool() {
				unretire()
			}
		}
		if c.Res.Status == "violated" {
			dropStore(st)
			break
		}
		cur := st.Keys(base + "root/current/")
		c.Distinct("current_list_sizes", fmt.Sprint(len(cur)))
		perms := permutations(len(cur), r, 24)
		if sched > 0 && len(perms) > 6 {
			// schedule 0 sweeps all permutations; the others sample
			var sub [][]int
			for _, i := range r.Perm(len(perms))[:6] {
				sub = append(sub, perms[i])
			}
			perms = sub
		}
		ok := true
		for _, p := range perms {
			o, err := c01Open(c, st, w.prefix, epn, true, p, client())
			if err != nil {
				c.Violate("C01:open-error", "read-only open failed: "+err.Error(), map[string]interface{}{"history": w.log, "schedule": trace})
				ok = false
				break
			}
			c.Count("readonly_opens", 1)
			if !compare(sched, fmt.Sprintf("read-only open with permutation %v of %d versions", p, len(cur)), o.dump, trace) {
				ok = false
				break
			}
		}
		if ok {
			o1, err := c01Open(c, st, w.prefix, epn, false, r.Perm(len(cur)), client())
			if err != nil {
				c.Violate("C01:open-error", "read-write open failed: "+err.Error(), map[string]interface{}{"history": w.log, "schedule": trace})
			} else if compare(sched, "first read-write open", o1.dump, trace) {
				o2, err := c01Open(c, st, w.prefix, epn, false, nil, client())
				if err != nil {
					c.Violate("C01:open-error", "second read-write open failed: "+err.Error(), nil)
				} else {
					compare(sched, "second read-write open", o2.dump, trace)
					c.Count("quiescent_reopens", 1)
					if o2.puts != 0 {
						c.Violate("C01:not-quiescent:puts", fmt.Sprintf("schedule %d: re-opening a quiescent table issued %d PUT/DELETE under root/", sched, o2.puts), map[string]interface{}{"history": w.log, "schedule": trace})
					}
					if o2.version != o1.version {
						c.Violate("C01:not-quiescent:version", fmt.Sprintf("schedule %d: re-opening a quiescent table changed s3db_version() from %s to %s", sched, o1.version, o2.version), map[string]interface{}{"history": w.log, "schedule": trace})
					}
					o3, err := c01Open(c, st, w.prefix, epn, true, nil, client())
					if err == nil {
						compare(sched, "final read-only open", o3.dump, trace)
					}
				}
			}
		}
		c.Count("schedules", 1)
		dropStore(st)
	}
	c.Count("opens_compared", int64(opens))
	if len(frontier) >= 3 && conflicts > 0 {
		c.NonTrivial(shape + "|" + dag)
	}
	if c.Index < 4 {
		l := w.log
		if len(l) > 12 {
			l = l[:12]
		}
		c.Res.Sample = map[string]interface{}{"writers": nw, "frontier": frontier, "dag": dag, "history": l, "rows": ref}
	}
}

// c01Wide: 34-48 writers open the empty table before any of them commits and
// write one row each, so that many unmerged versions are listed at once; a
// read-only open, a read-write open and another read-only open must each show
// every row, and after the read-write open the table is quiescent.
func c01Wide(c *Case) {
	r := c.R
	st := newStore()
	defer dropStore(st)
	n := r.Range(34, 48)
	epn := []int{4096, 3}[r.Intn(2)]
	st.PageSize = []int{0, 7, 1000}[r.Intn(3)]
	cols := "k PRIMARY KEY, a"
	var conns []*Conn
	defer func() {
		for _, cn := range conns {
			cn.Close()
		}
	}()
	var tabs []string
	for i := 0; i < n; i++ {
		cn := OpenConn(fmt.Sprintf("ww%d", i))
		conns = append(conns, cn)
		t := tname(c, fmt.Sprintf("ww%d_", i))
		tabs = append(tabs, t)
		if err := cn.Create(TableSpec{Name: t, Cols: cols, Store: st.Name, Client: fmt.Sprintf("ww%d", i), Prefix: "wide", EPN: epn}); err != nil {
			c.Violate("C01:wide:create", err.Error(), nil)
			return
		}
	}
	var want []string
	for i, cn := range conns {
		cn.SetWriteTime(100 + i)
		if err := cn.Exec(fmt.Sprintf("insert into %s values (%d, 'w%d')", tabs[i], i, i)); err != nil {
			c.Violate("C01:wide:statement-error", err.Error(), nil)
			return
		}
		want = append(want, fmt.Sprintf("i:%d|t:w%d", i, i))
	}
	unmerged := len(walk.VersionNames(st.Snapshot(), walk.Base("wide"), "current"))
	c.Count("wide_version_sets", 1)
	c.MaxOf("unmerged_versions_listed_at_once", int64(unmerged))
	var l1 []string
	for i, ro := range []bool{true, false, true, false} {
		cn := OpenConn("wr")
		t := tname(c, "wr")
		err := cn.Create(TableSpec{Name: t, Cols: cols, Store: st.Name, Client: fmt.Sprintf("wr%d", i), Prefix: "wide", EPN: epn, ReadOnly: ro})
		var d []string
		if err == nil {
			d, err = cn.Dump(t)
		}
		cn.Close()
		if err != nil {
			c.Violate("C01:wide:open-error", fmt.Sprintf("open %d (readonly=%v) over %d unmerged versions: %v", i, ro, unmerged, err), nil)
			return
		}
		if df := firstDiff(want, d); df != "" {
			c.Violate("C01:wide:rows-missing", fmt.Sprintf("open %d (readonly=%v) over %d unmerged versions of one row each does not show every row: %s", i, ro, unmerged, df), nil)
			return
		}
		if i == 1 {
			l1 = st.Listing(walk.Base("wide"))
		}
		if i == 3 {
			if df := firstDiff(l1, st.Listing(walk.Base("wide"))); df != "" {
				c.Violate("C01:wide:not-quiescent", "a second read-write open of the merged table still changes the bucket: "+df, nil)
				return
			}
		}
	}
	c.NonTrivial(fmt.Sprint("wide", n, epn, st.PageSize))
}
