package main

import (
	"bytes"
	"encoding/gob"
	"encoding/json"
	"fmt"
	"math"
	"os"
	"os/exec"
	"path/filepath"
	"sort"
	"strconv"
	"strings"
	"unicode/utf8"

	"verifh/fs3"
)

func init() {
	register(&Check{
		ID:    "C08",
		Level: "exploration",
		Rule: "per case ~26 values (boundary + random) of every storage class are written through bound parameters in non-key and in key position (autocommit, so a refusal is per value); " +
			"each accepted value is read back at five life-cycle points - immediately, from a fresh read-only connection, from another child process that received the bucket as a snapshot file, after a merge with another writer's version that did not touch the row, after s3db_vacuum - " +
			"and must come back with the same Go type from the driver and bit-identical content; unmentioned columns must be NULL; a refused value must stay absent. " +
			"non-trivial = at least 10 values of >=4 classes accepted; distinct = hash of the value list. Cases with index%8==7 run in the ASan build, index%8==6 in the -race (checkptr) build.",
		Flavours: []string{"plain", "asan", "race"},
		FlavourOf: func(tier string, idx int) string {
			switch idx % 8 {
			case 7:
				return "asan"
			case 6:
				return "race"
			}
			return "plain"
		},
		Cases: func(tier string) int {
			if tier == "thorough" {
				return 800
			}
			return 24
		},
		MinNT: func(tier string) int {
			if tier == "thorough" {
				return 600
			}
			return 16
		},
		Run: runC08,
		Assumptions: []string{
			"values go in and out through mattn/go-sqlite3 bound parameters and column accessors; bit-identity is judged on what the driver returns",
			"NaN is not generated (SQLite turns it into NULL at bind time, before s3db sees it)",
			"a clean ASan/checkptr run means 'no report on these executions', not memory safety",
		},
	})
}

var c08Texts = []string{"", "a", "é", "日本語", "\U0001F600", "a\x00b", "\x00", "tab\there", "line\nbreak", "'quote'", "ÿ", " ", "ß",
	"\ufeffbom", "é", strings.Repeat("x", 255), strings.Repeat("é", 300), "0", "1.5", "NULL", "x'00'"}

func c08Values(r *Rng) []interface{} {
	var vs []interface{}
	vs = append(vs, nil)
	for i := 0; i < 4; i++ {
		vs = append(vs, c07Ints[r.Intn(len(c07Ints))])
	}
	vs = append(vs, int64(r.U64()), int64(r.Intn(100)))
	for i := 0; i < 4; i++ {
		vs = append(vs, c07Reals[r.Intn(len(c07Reals))])
	}
	vs = append(vs, r.F64Bits(), float64(r.Intn(100))+0.5)
	for i := 0; i < 4; i++ {
		vs = append(vs, c08Texts[r.Intn(len(c08Texts))])
	}
	// random valid UTF-8
	var sb strings.Builder
	for i, n := 0, r.Intn(12); i < n; i++ {
		sb.WriteRune(rune([]int{0x41, 0xe9, 0x4e2d, 0x1F600, 0x7f, 0x80, 0x7ff, 0x800, 0xffff, 0x10000, 0}[r.Intn(11)]))
	}
	vs = append(vs, sb.String())
	// invalid UTF-8 text: must be refused or returned bit-identical
	vs = append(vs, string([]byte{'a', 0xff, 'b'}), string([]byte{0xc3}), string([]byte{0xed, 0xa0, 0x80}))
	for i := 0; i < 3; i++ {
		vs = append(vs, c07Blobs[r.Intn(len(c07Blobs))])
	}
	vs = append(vs, r.Bytes(r.Intn(40)))
	if r.Intn(3) == 0 {
		vs = append(vs, r.Bytes(1<<20))
	}
	if r.Intn(3) == 0 {
		vs = append(vs, strings.Repeat("long text é ", 20000))
	}
	p := r.Perm(len(vs))
	out := make([]interface{}, len(vs))
	for i, j := range p {
		out[i] = vs[j]
	}
	return out
}

func c08Class(v interface{}) string {
	switch x := v.(type) {
	case nil:
		return "NULL"
	case int64:
		return "INT"
	case float64:
		return "REAL"
	case string:
		if x == "" {
			return "TEXT-empty"
		}
		if !utf8.ValidString(x) {
			return "TEXT-invalid-utf8"
		}
		if strings.ContainsRune(x, 0) {
			return "TEXT-nul"
		}
		return "TEXT"
	case []byte:
		if len(x) == 0 {
			return "BLOB-empty"
		}
		return "BLOB"
	}
	return "?"
}

func short(s string) string {
	if len(s) > 80 {
		return fmt.Sprintf("%s...(%d bytes, sha %s)", s[:60], len(s), shortHash(s))
	}
	return s
}

// c08Snapshot file format
type snapFile struct {
	Objs map[string][]byte
}

func writeSnap(path string, snap fs3.Snapshot) error {
	var buf bytes.Buffer
	if err := gob.NewEncoder(&buf).Encode(snapFile{Objs: snap}); err != nil {
		return err
	}
	return os.WriteFile(path, buf.Bytes(), 0o644)
}

func readSnap(path string) (fs3.Snapshot, error) {
	b, err := os.ReadFile(path)
	if err != nil {
		return nil, err
	}
	var sf snapFile
	if err := gob.NewDecoder(bytes.NewReader(b)).Decode(&sf); err != nil {
		return nil, err
	}
	return sf.Objs, nil
}

// childRead is the entry point of "verif childread <snapfile> <cols> <prefix>":
// another process reads the table from the bucket alone.
func childRead(args []string) {
	snap, err := readSnap(args[0])
	if err != nil {
		fmt.Println(`{"err":"` + err.Error() + `"}`)
		return
	}
	st := newStore()
	st.Restore(snap)
	conn := OpenConn("child")
	defer conn.Close()
	spec := TableSpec{Name: "childtab", Cols: args[1], Store: st.Name, Client: "child", Prefix: args[2], ReadOnly: true}
	out := map[string]interface{}{}
	if err := conn.Create(spec); err != nil {
		out["err"] = err.Error()
	} else {
		rows, err := conn.Rows("select * from childtab")
		if err != nil {
			out["err"] = err.Error()
		}
		out["rows"] = rows
	}
	b, _ := json.Marshal(out)
	fmt.Println(string(b))
}

func runChildRead(c *Case, snap fs3.Snapshot, cols, prefix string) ([]string, error) {
	os.MkdirAll(c.Dir, 0o755)
	path := filepath.Join(c.Dir, fmt.Sprintf("snap-%d.gob", c.Index))
	if err := writeSnap(path, snap); err != nil {
		return nil, err
	}
	defer os.Remove(path)
	cmd := exec.Command(binFor("plain"), "childread", path, cols, prefix)
	var stdout, stderr bytes.Buffer
	cmd.Stdout, cmd.Stderr = &stdout, &stderr
	if err := cmd.Run(); err != nil {
		return nil, fmt.Errorf("child process: %v: %s", err, stderr.String())
	}
	var out struct {
		Err  string   `json:"err"`
		Rows []string `json:"rows"`
	}
	lines := strings.Split(strings.TrimSpace(stdout.String()), "\n")
	if err := json.Unmarshal([]byte(lines[len(lines)-1]), &out); err != nil {
		return nil, fmt.Errorf("child output: %v: %s", err, stdout.String())
	}
	if out.Err != "" {
		return out.Rows, fmt.Errorf("%s", out.Err)
	}
	return out.Rows, nil
}

func runC08(c *Case) {
	r := c.R
	vals := c08Values(r)
	epn := []int{4096, 4, 3, 16}[r.Intn(4)]
	st := newStore()
	defer dropStore(st)
	conn := OpenConn("w")
	defer conn.Close()
	tv := tname(c, "v") // value position
	tk := tname(c, "k") // key position
	specV := TableSpec{Name: tv, Cols: "k PRIMARY KEY, a, b", Store: st.Name, Client: "w", Prefix: "val", EPN: epn}
	specK := TableSpec{Name: tk, Cols: "k PRIMARY KEY, a, b", Store: st.Name, Client: "wk", Prefix: "key", EPN: epn}
	if err := conn.Create(specV); err != nil {
		c.Violate("C08:create", err.Error(), nil)
		return
	}
	if err := conn.Create(specK); err != nil {
		c.Violate("C08:create", err.Error(), nil)
		return
	}
	// a second writer per prefix, opened before anything is written (it forks from the empty table)
	conn2 := OpenConn("w2")
	defer conn2.Close()
	tv2, tk2 := tname(c, "v2"), tname(c, "k2")
	s2 := specV
	s2.Name, s2.Client = tv2, "w2"
	conn2.Create(s2)
	s2 = specK
	s2.Name, s2.Client = tk2, "wk2"
	conn2.Create(s2)

	expV := map[string]bool{} // rendered rows expected in the value-position table
	expK := map[string]bool{}
	classes := map[string]bool{}
	accepted := 0
	var canon strings.Builder
	violate := func(sig, msg string) { c.Violate("C08:"+sig, msg, nil) }

	checkRow := func(stage, table, where string, arg interface{}, want string, cls string) {
		rows, err := conn.Rows("select * from "+table+" where "+where, arg)
		c.Count("reads", 1)
		if err != nil {
			violate("read-error:"+stage+":"+cls, fmt.Sprintf("%s: read of %s failed: %v", stage, short(want), err))
			return
		}
		if len(rows) != 1 || rows[0] != want {
			got := "(no row)"
			if len(rows) > 0 {
				got = short(rows[0])
			}
			violate("altered:"+stage+":"+cls, fmt.Sprintf("%s: wrote %s, read %s", stage, short(want), got))
		}
	}
	// columns whose names differ only in the case of a non-ASCII letter are different columns (SQLite
	// folds ASCII only): each keeps its own value
	{
		tu := tname(c, "uni")
		su := TableSpec{Name: tu, Cols: `k PRIMARY KEY, "ä", "Ä", "straße", "STRASSE"`, Store: st.Name, Client: "wu", Prefix: "uni", EPN: epn}
		if err := conn.Create(su); err != nil {
			violate("create:non-ascii-columns", "a table with the columns ä, Ä, straße, STRASSE is refused: "+err.Error())
		} else {
			conn.Exec(`insert into `+tu+`(k, "ä", "Ä", "straße") values (1, ?, ?, ?)`, "lower", int64(7), []byte{1, 2})
			conn.Exec(`update `+tu+` set "STRASSE" = ? where k = 1`, 2.5)
			rows, err := conn.Rows(`select k, "ä", "Ä", "straße", "STRASSE" from ` + tu)
			c.Count("non_ascii_column_tables", 1)
			want := "i:1|t:lower|i:7|b:0102|r:2.5"
			if err != nil || len(rows) != 1 || rows[0] != want {
				violate("altered:columns-differing-in-non-ascii-case", fmt.Sprintf("wrote %s into four columns whose names differ only in non-ASCII case, read %v (%v)", want, rows, err))
			}
			conn.Exec(`insert into `+tu+`(k, "Ä") values (2, ?)`, "only-upper")
			rows, err = conn.Rows(`select k, "ä", "Ä", "straße", "STRASSE" from ` + tu + ` where k = 2`)
			if want := "i:2|NULL|t:only-upper|NULL|NULL"; err != nil || len(rows) != 1 || rows[0] != want {
				violate("altered:columns-differing-in-non-ascii-case", fmt.Sprintf("wrote %s, read %v (%v)", want, rows, err))
			}
			conn.Exec("drop table " + tu)
		}
	}
	for i, v := range vals {
		id := int64(i + 1)
		cls := c08Class(v)
		fmt.Fprintf(&canon, "%s;", short(lit(v)))
		// value position; column b is not mentioned and must read NULL
		err := conn.Exec("insert into "+tv+"(k,a) values (?,?)", id, v)
		c.Count("writes", 1)
		if err != nil {
			c.Count("refused:"+cls, 1)
			rows, _ := conn.Rows("select * from "+tv+" where k = ?", id)
			if len(rows) != 0 {
				violate("refused-but-visible:"+cls, fmt.Sprintf("insert of %s was refused (%v) but a row is visible: %v", short(lit(v)), err, rows))
			}
		} else {
			want := fmt.Sprintf("i:%d|%s|NULL", id, renderCell(v))
			expV[want] = true
			classes[cls] = true
			accepted++
			checkRow("immediate", tv, "k = ?", id, want, cls+":value")
		}
		// key position
		if v == nil {
			continue
		}
		err = conn.Exec("insert into "+tk+"(k,b) values (?,?)", v, id)
		c.Count("writes", 1)
		if err != nil {
			c.Count("refused-key:"+cls, 1)
			// either refused because it cannot be stored, or an equal key exists already
			continue
		}
		want := fmt.Sprintf("%s|NULL|i:%d", renderCell(v), id)
		expK[want] = true
		accepted++
		checkRow("immediate", tk, "b = ?", id, want, cls+":key")
	}
	// values written by UPDATE (also changing the storage class of the column), in both columns
	for j, v := range vals {
		if j%3 != 1 {
			continue
		}
		id := int64(7000 + j)
		cls := c08Class(v)
		if err := conn.Exec("insert into "+tv+"(k,a,b) values (?,?,?)", id, int64(j), "before"); err != nil {
			continue
		}
		err := conn.Exec("update "+tv+" set a = ?, b = ? where k = ?", v, v, id)
		c.Count("writes", 1)
		want := fmt.Sprintf("i:%d|i:%d|t:before", id, j)
		if err == nil {
			want = fmt.Sprintf("i:%d|%s|%s", id, renderCell(v), renderCell(v))
			c.Count("values_written_by_update", 1)
		} else {
			c.Count("refused-update:"+cls, 1)
		}
		checkRow("update", tv, "k = ?", id, want, cls+":update")
		expV[want] = true
	}
	// an UPDATE to a value that compares equal to the stored one but is another value: the zero of
	// the other sign, the same number in the other numeric class, the same bytes as TEXT / BLOB
	{
		negZero := math.Copysign(0, -1)
		pairs := [][2]interface{}{
			{float64(0), negZero}, {negZero, float64(0)},
			{int64(1), float64(1)}, {float64(2), int64(2)}, {int64(0), negZero}, {negZero, int64(0)},
			{"a", []byte("a")}, {[]byte("b"), "b"}, {int64(7), "7"}, {"8", int64(8)}, {float64(1 << 53), int64(1 << 53)},
		}
		for j, pr := range pairs {
			id := int64(8000 + j)
			if err := conn.Exec("insert into "+tv+"(k,a,b) values (?,?,?)", id, pr[0], pr[0]); err != nil {
				continue
			}
			err := conn.Exec("update "+tv+" set a = ? where k = ?", pr[1], id)
			c.Count("writes", 1)
			want := fmt.Sprintf("i:%d|%s|%s", id, renderCell(pr[0]), renderCell(pr[0]))
			if err == nil {
				want = fmt.Sprintf("i:%d|%s|%s", id, renderCell(pr[1]), renderCell(pr[0]))
				c.Count("updates_to_an_equal_comparing_value", 1)
			}
			checkRow("update", tv, "k = ?", id, want, c08Class(pr[1])+":update-to-equal-comparing-value")
			expV[want] = true
		}
	}
	// a stored numeric key looked up by the equal value of the other numeric class (or the zero of
	// the other sign) comes back as it was stored
	for want := range expK {
		cell := strings.SplitN(want, "|", 2)[0]
		var twin interface{}
		switch {
		case strings.HasPrefix(cell, "i:"):
			n, _ := strconv.ParseInt(cell[2:], 10, 64)
			if f := float64(n); n > -(1<<53) && n < 1<<53 {
				twin = f
			}
		case strings.HasPrefix(cell, "r:"):
			f, _ := strconv.ParseFloat(cell[2:], 64)
			if f == 0 {
				twin = -f
				if math.Signbit(f) {
					twin = float64(0)
				}
			} else if f == math.Trunc(f) && math.Abs(f) < 1<<53 {
				twin = int64(f)
			}
		}
		if twin == nil {
			continue
		}
		c.Count("keys_read_by_their_twin", 1)
		checkRow("twin-lookup", tk, "k = ?", twin, want, "key-by-twin")
	}
	// unmentioned columns read NULL also when an older value of that column exists
	// under a delete marker: one transaction (one write time), and a later one
	for j, v := range vals {
		if v == nil || j%5 != 0 {
			continue
		}
		id := int64(5000 + j)
		cls := c08Class(v)
		for _, oneTx := range []bool{true, false} {
			if oneTx {
				conn.Exec("begin")
			}
			e1 := conn.Exec("insert into "+tv+"(k,a,b) values (?,?,?)", id, v, v)
			var e2, e3 error
			if e1 == nil {
				e2 = conn.Exec("delete from "+tv+" where k = ?", id)
			}
			if e1 == nil && e2 == nil {
				e3 = conn.Exec("insert into "+tv+"(k,b) values (?,?)", id, int64(j))
			}
			if oneTx {
				if err := conn.Exec("commit"); err != nil {
					e1 = err
				}
			}
			if e1 != nil || e2 != nil || e3 != nil {
				conn.Exec("rollback")
				break // a value that cannot be stored; refusal is checked above
			}
			want := fmt.Sprintf("i:%d|NULL|i:%d", id, j)
			checkRow("reinsert-without-column", tv, "k = ?", id, want, cls+":unmentioned-after-delete")
			expV[want] = true
			c.Count("reinserts_without_column", 1)
			id += 100000
		}
	}
	c.Count("values_accepted", int64(accepted))
	dumpCheck := func(stage string, rowsV, rowsK []string, errV, errK error) {
		for _, x := range []struct {
			name string
			rows []string
			err  error
			exp  map[string]bool
		}{{"value", rowsV, errV, expV}, {"key", rowsK, errK, expK}} {
			c.Count("dumps_compared", 1)
			if x.err != nil {
				violate("read-error:"+stage+":"+x.name, fmt.Sprintf("%s: reading the %s-position table failed: %v", stage, x.name, x.err))
				continue
			}
			got := map[string]bool{}
			for _, row := range x.rows {
				got[row] = true
				if !x.exp[row] && !strings.Contains(row, "other-writer") {
					// find the written row with the same id to classify
					violate("altered:"+stage+":"+x.name+":"+c08RowClass(row, x.exp, x.name == "key"), fmt.Sprintf("%s: row %s was never written like that", stage, short(row)))
				}
			}
			for row := range x.exp {
				if !got[row] {
					violate("altered:"+stage+":"+x.name+":"+c08RowClass(row, nil, x.name == "key"), fmt.Sprintf("%s: written row %s is missing or changed", stage, short(row)))
				}
			}
		}
	}
	// fresh read-only connection
	fresh := func(stage string) {
		c3 := OpenConn("fresh")
		defer c3.Close()
		f1, f2 := tname(c, "fv"), tname(c, "fk")
		s := specV
		s.Name, s.Client, s.ReadOnly = f1, "fresh", true
		e1 := c3.Create(s)
		s = specK
		s.Name, s.Client, s.ReadOnly = f2, "freshk", true
		e2 := c3.Create(s)
		var rv, rk []string
		if e1 == nil {
			rv, e1 = c3.Rows("select * from " + f1)
		}
		if e2 == nil {
			rk, e2 = c3.Rows("select * from " + f2)
		}
		dumpCheck(stage, rv, rk, e1, e2)
	}
	fresh("fresh-connection")
	// another process
	snap := st.Snapshot()
	rv, e1 := runChildRead(c, snap, "k PRIMARY KEY, a, b", "val")
	rk, e2 := runChildRead(c, snap, "k PRIMARY KEY, a, b", "key")
	dumpCheck("other-process", rv, rk, e1, e2)
	// merge with another writer's version that does not touch the rows
	conn2.Exec("insert into "+tv2+" values (?,?,?)", int64(1000000+c.Index), "other-writer", nil)
	conn2.Exec("insert into "+tk2+" values (?,?,?)", "zz-other-writer", "other-writer", nil)
	conn.Exec("select s3db_refresh('" + tv + "')")
	conn.Exec("select s3db_refresh('" + tk + "')")
	rv, e1 = conn.Rows("select * from " + tv)
	rk, e2 = conn.Rows("select * from " + tk)
	dumpCheck("after-merge", rv, rk, e1, e2)
	fresh("after-merge-fresh")
	// merge with another writer's version that does touch the rows, in the other column: the other
	// writer catches up, sets column b of every value row, and the first writer merges that; the
	// values in column a - which the other writer never mentioned - keep their bits
	if err := conn2.Exec("select s3db_refresh('" + tv2 + "')"); err == nil {
		if n, err := conn2.ExecN("update " + tv2 + " set b = 'w2' where k < 7000 and b is null"); err == nil && n > 0 {
			c.Count("rows_updated_by_the_other_writer", int64(n))
			for row := range expV {
				var id int64
				fmt.Sscanf(row, "i:%d|", &id)
				if id < 7000 && strings.HasSuffix(row, "|NULL") {
					delete(expV, row)
					expV[strings.TrimSuffix(row, "|NULL")+"|t:w2"] = true
				}
			}
			conn.Exec("select s3db_refresh('" + tv + "')")
			rv, e1 = conn.Rows("select * from " + tv)
			rk, e2 = conn.Rows("select * from " + tk)
			dumpCheck("after-foreign-update", rv, rk, e1, e2)
			fresh("after-foreign-update-fresh")
		}
	}
	// vacuum (cutoff in the past: nothing qualifies, but the whole vacuum path runs)
	for _, t := range []string{tv, tk} {
		res, err := conn.Rows("select * from s3db_vacuum('"+t+"', ?)", "2001-01-01 00:00:00")
		if err != nil || (len(res) > 0 && !strings.HasPrefix(res[0], "NULL")) {
			c.Count("vacuum_errors", 1)
		}
	}
	rv, e1 = conn.Rows("select * from " + tv)
	rk, e2 = conn.Rows("select * from " + tk)
	dumpCheck("after-vacuum", rv, rk, e1, e2)
	fresh("after-vacuum-fresh")

	var cl []string
	for k := range classes {
		cl = append(cl, k)
		c.Distinct("classes_accepted", k)
	}
	sort.Strings(cl)
	if accepted >= 10 && len(cl) >= 4 {
		c.NonTrivial(canon.String())
	}
	if c.Index < 4 {
		c.Res.Sample = map[string]interface{}{"entries_per_node": epn, "values": canon.String()[:min(600, canon.Len())], "accepted": accepted, "classes": cl}
	}
	_ = math.Pi
}

// c08RowClass guesses the class of the differing cell for the signature.
func c08RowClass(row string, exp map[string]bool, keyTable bool) string {
	parts := strings.Split(row, "|")
	for _, p := range parts {
		switch {
		case p == "t:":
			return "TEXT-empty"
		case p == "b:":
			return "BLOB-empty"
		}
	}
	if exp != nil {
		// the id is the first or last cell; find the expected row with the same id
		for e := range exp {
			ep := strings.Split(e, "|")
			if len(ep) == len(parts) && ((!keyTable && ep[0] == parts[0]) || (keyTable && ep[len(ep)-1] == parts[len(parts)-1])) {
				for _, p := range ep {
					if p == "t:" {
						return "TEXT-empty"
					}
					if p == "b:" {
						return "BLOB-empty"
					}
				}
			}
		}
	}
	for _, p := range parts[:] {
		if strings.HasPrefix(p, "t:") && !utf8.ValidString(p) {
			return "TEXT-invalid-utf8"
		}
	}
	return "other"
}
