package main

import (
	"fmt"
	"os"
	"sort"
	"strings"
	"sync"
	"sync/atomic"
	"time"

	"verifh/fs3"
	"verifh/walk"
)

func init() {
	register(&Check{
		ID:    "C19",
		Level: "exploration",
		Rule: "real goroutines, no scheduler, built with -race: m = 4..12 connections, each with its own tables on 1-3 shared bucket prefixes, each running an independent seeded stream of 25-60 steps (INSERT/UPDATE/DELETE on its own key range and on a few shared keys, transactions with rollback, s3db_refresh, s3db_version, s3db_vacuum with a cutoff older than every stamp, drop/create) under its own write_time range and its own deadline, plus inserts of REAL, TEXT and BLOB keys into a side table that only this connection uses (own prefix, 2-4 entries per node); one connection runs part of its stream under an expired deadline; the store sleeps 0-300 us before every request, outside its mutex, to widen interleavings; the whole workload is repeated 3 times per case; before it, one connection's CREATE is held at its first storage request while another connection must get through create / insert / version / refresh / vacuum / drop; one case in six uses the built-in bucket (no hook on the path). " +
			"Monitors: every WARNING: DATA RACE block in the race log (deduplicated by outermost frames) is a violation; the worker must neither die nor hang; every decoded stamp of a key owned by connection i must lie in i's write_time range; only the connection with the expired deadline may see deadline errors; per prefix the final merged rows must equal the M-row model of all accepted statements; each connection's view of its own keys must equal its own stream applied sequentially. " +
			"non-trivial = >=4 connections completed and >=2 shared a prefix; distinct = hash of the arrival order of requests at the store (distinct interleavings are also counted)",
		Flavours: []string{"race"},
		Cases: func(tier string) int {
			if tier == "thorough" {
				return 200
			}
			return 12
		},
		MinNT: func(tier string) int {
			if tier == "thorough" {
				return 100
			}
			return 6
		},
		Run:             runC19,
		HangIsViolation: true,
		CaseTimeout:     240 * time.Second,
		MaxWorkers:      4,
		Assumptions: []string{
			"the race detector reports only races on executions it sees; a clean run is 'no report on these executions'",
			"the environment is not scrubbed (AWS_CA_BUNDLE stays as the sandbox sets it)",
		},
	})
}

type c19conn struct {
	idx     int
	prefix  int
	conn    *Conn
	table   string
	stmts   []HStmt // accepted, own stream
	errs    []string
	dlErrs  int
	expired bool
	local   []string
}

func runC19(c *Case) {
	r := c.R
	builtin := c.Index%6 == 5
	c19Stall(c)
	for rep := 0; rep < 3 && c.Res.Status != "violated"; rep++ {
		c19Round(c, r.Fork(), builtin, rep)
	}
}

func c19Round(c *Case, r *Rng, builtin bool, rep int) {
	m := r.Range(4, 12)
	nprefix := r.Range(1, 3)
	st := newStore()
	defer dropStore(st)
	cols := "k PRIMARY KEY, a, b, c"
	conns := make([]*c19conn, m)
	prefixName := func(p int) string {
		if builtin {
			return fmt.Sprintf("c19-%d-%d-%d-%d", c.Seed, c.Index, rep, p)
		}
		return fmt.Sprintf("p%d", p)
	}
	spec := func(cc *c19conn, name string) TableSpec {
		s := TableSpec{Name: name, Cols: cols, Prefix: prefixName(cc.prefix), EPN: []int{4096, 4, 3}[cc.prefix%3]}
		if !builtin {
			s.Store, s.Client = st.Name, fmt.Sprintf("c%d", cc.idx)
		}
		return s
	}
	expiredIdx := r.Intn(m)
	for i := range conns {
		conns[i] = &c19conn{idx: i, prefix: r.Intn(nprefix), expired: i == expiredIdx}
		if !builtin {
			jr := r.Fork()
			var jmu sync.Mutex
			st.Client(fmt.Sprintf("c%d", i)).SetJitter(func() time.Duration {
				jmu.Lock()
				d := time.Duration(jr.Intn(300)) * time.Microsecond
				jmu.Unlock()
				return d
			})
		}
	}
	seeds := make([]*Rng, m)
	for i := range seeds {
		seeds[i] = r.Fork()
	}
	var wg, wgWriters sync.WaitGroup
	start := make(chan struct{})
	for i := range conns {
		wgWriters.Add(1)
		go func(cc *c19conn, rr *Rng) {
			defer wgWriters.Done()
			<-start
			cc.conn = OpenConn(fmt.Sprintf("c%d", cc.idx))
			cc.table = fmt.Sprintf("t%d_r%d_c%d_%d", c.Index, rep, cc.idx, rr.Intn(1<<30))
			if err := cc.conn.Create(spec(cc, cc.table)); err != nil {
				cc.errs = append(cc.errs, "create: "+err.Error())
				return
			}
			// every connection tries to create one table under a shared name: exactly the first
			// one may succeed, the refusals must not disturb anybody (the registry is process-wide)
			sharedName := fmt.Sprintf("t%d_r%d_shared", c.Index, rep)
			ownsShared := cc.conn.Create(spec(cc, sharedName)) == nil
			// a failed CREATE makes SQLite reset this connection's schema: its virtual tables are
			// disconnected and reconnect on their next use in SQL, which the s3db_* functions
			// (they take the table name as a string) do not trigger; touch the table once
			cc.conn.Rows("select count(*) from " + cc.table)
			defer func() {
				if ownsShared {
					cc.conn.Exec("drop table " + sharedName)
				}
			}()
			// a side table of its own (own prefix, small nodes) with REAL, TEXT and BLOB keys: nothing
			// is shared with the other connections except the process
			sideSpec := TableSpec{Name: cc.table + "_side", Cols: "k PRIMARY KEY, v", Prefix: prefixName(100 + cc.idx), EPN: []int{3, 4, 2}[cc.idx%3]}
			if !builtin {
				sideSpec.Store, sideSpec.Client = st.Name, fmt.Sprintf("c%d", cc.idx)
			}
			if err := cc.conn.Create(sideSpec); err != nil {
				cc.errs = append(cc.errs, "create side table: "+err.Error())
				return
			}
			sideN := 0
			defer func() {
				rows, err := cc.conn.Rows("select k from " + sideSpec.Name + " order by k")
				if err != nil {
					cc.errs = append(cc.errs, "side table: "+err.Error())
				} else if len(rows) != sideN {
					cc.errs = append(cc.errs, fmt.Sprintf("side table: %d keys inserted, %d rows read", sideN, len(rows)))
				}
				cc.conn.Exec("drop table " + sideSpec.Name)
			}()
			base := 10000 * (cc.idx + 1) // write_time range [base, base+9999]
			tcur := base
			own := func(n int) int { return 1000*(cc.idx+1) + n }
			// a generous deadline of its own on some connections
			if cc.idx%2 == 0 {
				cc.conn.Exec("update s3db_conn set deadline=?", time.Now().UTC().Add(time.Hour+time.Duration(cc.idx)*time.Minute).Format("2006-01-02 15:04:05"))
			}
			steps := rr.Range(25, 60)
			expFrom, expTo := -1, -1
			if cc.expired {
				expFrom = rr.Intn(steps - 6)
				expTo = expFrom + rr.Range(2, 5)
			}
			id := 0
			for s := 0; s < steps; s++ {
				if s == expFrom {
					cc.conn.Exec("update s3db_conn set deadline='2001-01-01 00:00:00'")
				}
				if s == expTo {
					cc.conn.Exec("update s3db_conn set deadline=NULL")
				}
				underExpired := s >= expFrom && s < expTo
				note := func(what string, err error) {
					if os.Getenv("C19_DEBUG") != "" && cc.idx == 0 {
						fmt.Printf("DBG c0 step %d %s -> %v (table %s)\n", s, what, err, cc.table)
					}
					if err == nil {
						return
					}
					if strings.Contains(err.Error(), "deadline") || strings.Contains(err.Error(), "context") {
						cc.dlErrs++
						if underExpired {
							return
						}
						cc.errs = append(cc.errs, "deadline-error-without-own-expired-deadline: "+what+": "+err.Error())
						return
					}
					if underExpired {
						return
					}
					if errClass(err) == "error" {
						cc.errs = append(cc.errs, what+": "+err.Error())
					}
				}
				tcur += rr.Range(1, 9)
				cc.conn.SetWriteTime(tcur)
				if rr.Bool() {
					var sk interface{}
					switch n := s*3 + rr.Intn(3); rr.Intn(4) {
					case 0:
						sk = fmt.Sprintf("text-%d-%d", cc.idx, n)
					case 1:
						sk = []byte{byte(cc.idx), byte(n >> 8), byte(n)}
					default:
						sk = float64(n) + []float64{0.25, 0.5, 1e-9, 1e17}[rr.Intn(4)]
					}
					err := cc.conn.Exec("insert into "+sideSpec.Name+" values (?,?)", sk, int64(s))
					if err == nil {
						sideN++
					} else if errClass(err) != "constraint-pk" {
						note("side insert", err)
					}
				}
				exec := func(kind string, key int, cv map[string]string) {
					id++
					hs := HStmt{ID: id, W: cc.idx, Kind: kind, Key: key, Cols: cv, T: tcur}
					var q string
					var args []interface{}
					switch kind {
					case "ins":
						q = "insert into " + cc.table + "(k,a,b) values (?,?,?)"
						args = []interface{}{int64(key), strings.TrimPrefix(cv["a"], "t:"), strings.TrimPrefix(cv["b"], "t:")}
						hs.Cols = map[string]string{"a": cv["a"], "b": cv["b"], "c": "NULL"}
					case "upd":
						q = "update " + cc.table + " set c=? where k=?"
						args = []interface{}{strings.TrimPrefix(cv["c"], "t:"), int64(key)}
					default:
						q = "delete from " + cc.table + " where k=?"
						args = []interface{}{int64(key)}
					}
					n, err := cc.conn.ExecN(q, args...)
					note(q, err)
					if err == nil && n > 0 {
						hs.Accepted = true
						cc.stmts = append(cc.stmts, hs)
					}
				}
				tag := fmt.Sprintf("t:c%ds%d", cc.idx, s)
				switch x := rr.Intn(100); {
				case x < 40:
					exec("ins", own(rr.Intn(12)), map[string]string{"a": tag + "a", "b": tag + "b"})
				case x < 55:
					exec("upd", own(rr.Intn(12)), map[string]string{"c": tag + "c"})
				case x < 65:
					exec("del", own(rr.Intn(12)), nil)
				case x < 72:
					// transaction, sometimes rolled back
					note("begin", cc.conn.Exec("begin"))
					n0 := len(cc.stmts)
					exec("ins", own(rr.Intn(12)), map[string]string{"a": tag + "ta", "b": tag + "tb"})
					tcur++ // distinct write times per key (ties are outside the model)
					cc.conn.SetWriteTime(tcur)
					exec("upd", own(rr.Intn(12)), map[string]string{"c": tag + "tc"})
					if rr.Intn(3) == 0 {
						cc.conn.Exec("rollback")
						cc.stmts = cc.stmts[:n0]
					} else if err := cc.conn.Exec("commit"); err != nil {
						note("commit", err)
						cc.stmts = cc.stmts[:n0]
					}
				case x < 82:
					note("refresh", cc.conn.Exec("select s3db_refresh('"+cc.table+"')"))
				case x < 88:
					_, err := cc.conn.Scalar("select s3db_version('" + cc.table + "')")
					note("version", err)
				case x < 92:
					_, err := cc.conn.Rows("select * from s3db_vacuum('" + cc.table + "', '2001-01-01 00:00:00')")
					note("vacuum", err)
				case x < 96:
					_, err := cc.conn.Rows("select count(*), max(k) from " + cc.table)
					note("select", err)
				default:
					if underExpired {
						continue
					}
					note("drop", cc.conn.Exec("drop table "+cc.table))
					cc.table = fmt.Sprintf("t%d_r%d_c%d_%d", c.Index, rep, cc.idx, rr.Intn(1<<30))
					if err := cc.conn.Create(spec(cc, cc.table)); err != nil {
						cc.errs = append(cc.errs, "re-create: "+err.Error())
						return
					}
				}
			}
			cc.conn.Exec("update s3db_conn set deadline=NULL")
			// own keys as this connection sees them
			lo, hi := own(0), own(999)
			cc.local, _ = cc.conn.Rows("select * from "+cc.table+" where k >= ? and k <= ? order by k", int64(lo), int64(hi))
		}(conns[i], seeds[i])
	}
	// read-only observers on the shared prefixes: merge-on-open, refresh, version and changes
	// while the writers run (their requests carry the read-only flag: no PUT, no DELETE)
	nobs := r.Range(1, 2)
	obsErrs := make([][]string, nobs)
	var stop int32
	for o := 0; o < nobs && !builtin; o++ {
		wg.Add(1)
		go func(o int, rr *Rng) {
			defer wg.Done()
			<-start
			conn := OpenConn(fmt.Sprintf("obs%d", o))
			defer conn.Close()
			p := rr.Intn(nprefix)
			t := fmt.Sprintf("t%d_r%d_obs%d", c.Index, rep, o)
			sp := TableSpec{Name: t, Cols: cols, Prefix: prefixName(p), Store: st.Name, Client: fmt.Sprintf("obs%d", o), ReadOnly: true}
			if err := conn.Create(sp); err != nil {
				obsErrs[o] = append(obsErrs[o], "observer open: "+err.Error())
				return
			}
			first := ""
			for i := 0; i < 40 && atomic.LoadInt32(&stop) == 0; i++ {
				if err := conn.Exec("select s3db_refresh('" + t + "')"); err != nil {
					obsErrs[o] = append(obsErrs[o], "observer refresh: "+err.Error())
					return
				}
				v, err := conn.Scalar("select s3db_version('" + t + "')")
				if err != nil {
					obsErrs[o] = append(obsErrs[o], "observer version: "+err.Error())
					return
				}
				if first == "" {
					first = strings.TrimPrefix(v, "t:")
				}
				if _, err := conn.Rows("select count(*), min(k), max(k) from " + t); err != nil {
					obsErrs[o] = append(obsErrs[o], "observer select: "+err.Error())
					return
				}
				if i%4 == 3 && first != "[]" {
					ct := t + "_chg"
					if err := conn.Exec(fmt.Sprintf("create virtual table %s using s3db_changes (table='%s', from='%s')", ct, t, first)); err == nil {
						if _, err := conn.Rows("select * from " + ct); err != nil && !strings.Contains(err.Error(), "not found") && !strings.Contains(err.Error(), "NoSuchKey") {
							// a version retired and vacuumed in between may be gone; anything else is an error
							obsErrs[o] = append(obsErrs[o], "observer changes: "+err.Error())
						}
						conn.Exec("drop table " + ct)
					}
				}
				time.Sleep(time.Duration(rr.Intn(2000)) * time.Microsecond)
			}
		}(o, r.Fork())
	}
	close(start)
	wgWriters.Wait()
	atomic.StoreInt32(&stop, 1)
	wg.Wait()
	for o := range obsErrs {
		for _, e := range obsErrs[o] {
			c.Violate("C19:observer-error", fmt.Sprintf("read-only observer %d: %s", o, e), nil)
			return
		}
	}
	for _, a := range st.Asserts() {
		if strings.HasPrefix(a, "readonly-mutation") {
			c.Violate("C19:observer-mutation", a, nil)
			return
		}
	}
	c.Count("observers", int64(nobs))
	c.Count("rounds", 1)
	c.Count("connections", int64(m))
	defer func() {
		for _, cc := range conns {
			cc.conn.Close()
		}
	}()
	// interleaving signature: arrival order of requests by client
	if !builtin {
		var sb strings.Builder
		for _, ev := range st.Log() {
			sb.WriteString(ev.Client)
			sb.WriteByte(' ')
		}
		c.Distinct("request_interleavings", sb.String())
		c.Count("requests", int64(st.LogLen()))
	}
	for _, cc := range conns {
		c.Count("statements_accepted", int64(len(cc.stmts)))
		for _, e := range cc.errs {
			sig := "statement-error"
			if strings.HasPrefix(e, "deadline-error-without") {
				sig = "cross-talk:deadline"
			}
			c.Violate("C19:"+sig, fmt.Sprintf("connection %d: %s", cc.idx, e), nil)
			return
		}
		if cc.expired && cc.dlErrs > 0 {
			c.Count("own_deadline_errors_seen", int64(cc.dlErrs))
		}
		// own view of own keys
		want := mrow(cc.stmts)
		if d := firstDiff(want, cc.local); d != "" {
			c.Violate("C19:own-view-differs", fmt.Sprintf("connection %d's view of its own keys differs from its own stream applied in order: %s", cc.idx, d), nil)
			return
		}
	}
	// merged view per prefix
	for p := 0; p < nprefix; p++ {
		var all []HStmt
		sharers := 0
		for _, cc := range conns {
			if cc.prefix == p {
				all = append(all, cc.stmts...)
				sharers++
			}
		}
		if sharers == 0 {
			continue
		}
		conn := OpenConn("final")
		t := fmt.Sprintf("t%d_r%d_final%d", c.Index, rep, p)
		sp := TableSpec{Name: t, Cols: cols, Prefix: prefixName(p), ReadOnly: true}
		if !builtin {
			sp.Store, sp.Client = st.Name, "final"
		}
		err := conn.Create(sp)
		var got []string
		if err == nil {
			got, err = conn.Dump(t)
		}
		conn.Close()
		if err != nil {
			c.Violate("C19:final-open-error", err.Error(), nil)
			return
		}
		sort.Strings(got)
		want := mrow(all)
		sort.Strings(want)
		c.Count("merged_dumps_compared", 1)
		if d := firstDiff(want, got); d != "" {
			c.Violate("C19:merged-differs", fmt.Sprintf("prefix %d shared by %d connections: merged rows differ from the model of all accepted statements: %s", p, sharers, d), nil)
			return
		}
		if sharers >= 2 && m >= 4 {
			c.Res.NonTrivial = true
		}
		// stamps: keys of connection i carry stamps from i's range only
		if !builtin {
			snap := st.Snapshot()
			base := walk.Base(prefixName(p))
			for _, n := range walk.VersionNames(snap, base, "current") {
				v := walk.Walk(snap, base, n)
				for i := range v.Entries {
					e := &v.Entries[i]
					if e.Key.Type != 1 {
						continue
					}
					owner := int(e.Key.Int/1000) - 1
					lo, hi := tnanos(10000*(owner+1)), tnanos(10000*(owner+1)+9999)
					ts := []int64{e.DeleteTime()}
					for _, col := range []string{"a", "b", "c"} {
						if t, ok := e.ColTime(col); ok {
							ts = append(ts, t)
						}
					}
					for _, t := range ts {
						c.Count("stamps_checked", 1)
						if t < lo || t > hi {
							c.Violate("C19:cross-talk:write-time", fmt.Sprintf("key %d (owned by connection %d) carries a stamp outside that connection's write_time range", e.Key.Int, owner), nil)
							return
						}
					}
				}
			}
		}
	}
	if c.Res.NonTrivial {
		c.Res.Key = shortHash(fmt.Sprint(c.Index, rep, m, nprefix, st.LogLen()))
	}
	if rep == 0 && c.Index < 4 {
		c.Res.Sample = map[string]interface{}{"connections": m, "prefixes": nprefix, "builtin_bucket": builtin, "requests": st.LogLen()}
	}
}

// stallGate holds the first request of a client until released.
type stallGate struct {
	once    sync.Once
	arrived chan struct{}
	release chan struct{}
}

func (g *stallGate) Wait(_ *fs3.Client, _, _ string) {
	first := false
	g.once.Do(func() { first = true })
	if first {
		close(g.arrived)
		<-g.release
	}
}
func (g *stallGate) Done(*fs3.Client, string, string) {}

// c19Stall: while one connection's CREATE VIRTUAL TABLE waits for a store that
// does not answer, another connection creates, uses and drops a table of its
// own on another store client. Logical condition plus a generous watchdog: the
// second connection must finish while the first is still held.
func c19Stall(c *Case) {
	st := newStore()
	defer dropStore(st)
	g := &stallGate{arrived: make(chan struct{}), release: make(chan struct{})}
	st.Client("stalled").SetGate(g)
	sdone := make(chan error, 1)
	sconn := OpenConn("stalled")
	defer sconn.Close()
	go func() {
		sdone <- sconn.Create(TableSpec{Name: tname(c, "stalled"), Cols: "k PRIMARY KEY, a", Store: st.Name, Client: "stalled", Prefix: "s1"})
	}()
	select {
	case <-g.arrived:
	case <-time.After(20 * time.Second):
		close(g.release)
		<-sdone
		return // the create never reached the store: nothing to observe
	}
	bdone := make(chan string, 1)
	bconn := OpenConn("free")
	go func() {
		t := tname(c, "free")
		if err := bconn.Create(TableSpec{Name: t, Cols: "k PRIMARY KEY, a", Store: st.Name, Client: "free", Prefix: "s2"}); err != nil {
			bdone <- "create: " + err.Error()
			return
		}
		for _, q := range []string{"insert into " + t + " values (1,'x')", "select s3db_version('" + t + "')", "select s3db_refresh('" + t + "')", "select * from s3db_vacuum('" + t + "','2001-01-01 00:00:00')", "drop table " + t} {
			if _, err := bconn.Rows(q); err != nil {
				bdone <- q + ": " + err.Error()
				return
			}
		}
		bdone <- ""
	}()
	c.Count("stalled_create_scenarios", 1)
	select {
	case msg := <-bdone:
		if msg != "" {
			c.Violate("C19:stalled-create:other-connection-error", "while another connection's CREATE was waiting for its store: "+msg, nil)
		}
		close(g.release)
	case <-time.After(30 * time.Second):
		c.Violate("C19:stalled-create:other-connection-blocked", "while one connection's CREATE VIRTUAL TABLE waits for a store that does not answer, another connection (other prefix, other store client) has not finished create / insert / s3db_version / s3db_refresh / s3db_vacuum / drop within 30 s", nil)
		close(g.release)
		<-bdone
	}
	<-sdone
	bconn.Close()
}
