// Package walk is an independent offline reader of an s3db bucket: version
// objects are parsed as JSON, node objects with the generated protobuf
// package (not with s3db's own unmarshaller), and trees are traversed by
// following links by name. It is used for reachability, structural
// invariants, decoded stamps and retention rules.
package walk

import (
	"bytes"
	"encoding/hex"
	"encoding/json"
	"fmt"
	"math"
	"sort"
	"strconv"
	"strings"
	"time"

	v1proto "github.com/jrhy/s3db/proto/v1"
	"google.golang.org/protobuf/proto"
)

type RootJSON struct {
	Link         *string    `json:"Link"`
	Size         uint64     `json:"Size"`
	Height       uint8      `json:"Height"`
	BranchFactor uint       `json:"BranchFactor"`
	NodeFormat   string     `json:"NodeFormat"`
	Created      *time.Time `json:"cr"`
	Parents      []string   `json:"p"`
	MergeMode    int        `json:"mm"`
	KVVersion    int        `json:"kv_version"`
}

type Entry struct {
	Key  *v1proto.SQLiteValue
	Mod  int64 // ModEpochNanos
	Tomb int64
	Prev string
	Row  *v1proto.Row // nil when absent
}

// Live reports whether the entry is a visible row.
func (e *Entry) Live() bool { return e.Tomb == 0 && e.Row != nil && !e.Row.Deleted }

// DeleteTime is the row's delete-status stamp.
func (e *Entry) DeleteTime() int64 {
	if e.Row == nil {
		return e.Mod
	}
	return e.Mod + int64(e.Row.DeleteUpdateOffset.AsDuration())
}

// ColTime is the update stamp of a column.
func (e *Entry) ColTime(col string) (int64, bool) {
	if e.Row == nil {
		return 0, false
	}
	cv, ok := e.Row.ColumnValues[col]
	if !ok {
		return 0, false
	}
	return e.Mod + int64(cv.UpdateOffset.AsDuration()), true
}

type Version struct {
	Name       string
	Where      string // "current" | "merged"
	Root       RootJSON
	RawBytes   []byte
	Nodes      map[string]bool // reachable node names
	Entries    []Entry         // in-order
	Depth      int             // measured: number of node levels (0 = empty)
	Sparse     bool            // an interior node with an absent link was seen
	EmptyNodes int
	Problems   []string
}

// Base returns the key prefix of a table's objects for an s3_prefix.
func Base(s3prefix string) string {
	p := strings.TrimPrefix(strings.TrimPrefix(strings.TrimSuffix(s3prefix, "/"), "/")+"/s3db-rows", "/")
	return p + "/"
}

// VersionNames lists version object names under root/current or root/merged.
func VersionNames(snap map[string][]byte, base, where string) []string {
	pre := base + "root/" + where + "/"
	var out []string
	for k := range snap {
		if strings.HasPrefix(k, pre) {
			out = append(out, strings.TrimPrefix(k, pre))
		}
	}
	sort.Strings(out)
	return out
}

func NodeNames(snap map[string][]byte, base string) []string {
	pre := base + "node/"
	var out []string
	for k := range snap {
		if strings.HasPrefix(k, pre) {
			out = append(out, strings.TrimPrefix(k, pre))
		}
	}
	sort.Strings(out)
	return out
}

// FindVersion locates a version object in current/ then merged/.
func FindVersion(snap map[string][]byte, base, name string) ([]byte, string, bool) {
	for _, w := range []string{"current", "merged"} {
		if b, ok := snap[base+"root/"+w+"/"+name]; ok {
			return b, w, true
		}
	}
	return nil, "", false
}

// ParseRoot decodes a version object (JSON format only).
func ParseRoot(b []byte) (RootJSON, error) {
	var r RootJSON
	err := json.Unmarshal(b, &r)
	return r, err
}

// Walk reads one version completely.
func Walk(snap map[string][]byte, base, name string) *Version {
	v := &Version{Name: name, Nodes: map[string]bool{}}
	b, where, ok := FindVersion(snap, base, name)
	if !ok {
		v.Problems = append(v.Problems, "version object missing: "+name)
		return v
	}
	v.Where = where
	v.RawBytes = b
	r, err := ParseRoot(b)
	if err != nil {
		v.Problems = append(v.Problems, fmt.Sprintf("version object %s does not parse as JSON: %v", name, err))
		return v
	}
	v.Root = r
	if r.Link != nil && *r.Link != "" {
		v.Depth = v.walkNode(snap, base, *r.Link, 1)
	}
	if uint64(len(v.Entries)) != r.Size {
		v.Problems = append(v.Problems, fmt.Sprintf("size: version %s records Size=%d but holds %d entries", name, r.Size, len(v.Entries)))
	}
	for i := 1; i < len(v.Entries); i++ {
		if Cmp(v.Entries[i-1].Key, v.Entries[i].Key) >= 0 {
			v.Problems = append(v.Problems, fmt.Sprintf("order: version %s entries %d,%d not strictly increasing: %s !< %s",
				name, i-1, i, KeyString(v.Entries[i-1].Key), KeyString(v.Entries[i].Key)))
		}
	}
	// subtrees may be absent (sparse), so the measured depth is only bounded
	if v.Depth > int(r.Height)+1 {
		v.Problems = append(v.Problems, fmt.Sprintf("height: version %s records Height=%d but tree has %d levels", name, r.Height, v.Depth))
	}
	return v
}

func (v *Version) walkNode(snap map[string][]byte, base, link string, depth int) int {
	if depth > 64 {
		v.Problems = append(v.Problems, "tree deeper than 64 levels (cycle?)")
		return depth
	}
	v.Nodes[link] = true
	b, ok := snap[base+"node/"+link]
	if !ok {
		v.Problems = append(v.Problems, "missing-node: "+link)
		return depth
	}
	var n v1proto.Node
	if err := proto.Unmarshal(b, &n); err != nil {
		v.Problems = append(v.Problems, fmt.Sprintf("undecodable-node: %s: %v", link, err))
		return depth
	}
	if len(n.Key) != len(n.Value) {
		v.Problems = append(v.Problems, fmt.Sprintf("node %s: %d keys but %d values", link, len(n.Key), len(n.Value)))
		return depth
	}
	if len(n.Link) != 0 && len(n.Link) != len(n.Key)+1 {
		v.Problems = append(v.Problems, fmt.Sprintf("links: node %s has %d keys and %d links", link, len(n.Key), len(n.Link)))
	}
	if len(n.Key) == 0 && len(n.Link) == 0 {
		v.EmptyNodes++
	}
	max := depth
	present := 0
	for _, l := range n.Link {
		if l != "" {
			present++
		}
	}
	if present > 0 && present < len(n.Link) {
		v.Sparse = true
	}
	for i := 0; i <= len(n.Key); i++ {
		if i < len(n.Link) && n.Link[i] != "" {
			d := v.walkNode(snap, base, n.Link[i], depth+1)
			if d > max {
				max = d
			}
		}
		if i < len(n.Key) {
			e := Entry{Key: n.Key[i], Mod: n.Value[i].ModEpochNanos, Tomb: n.Value[i].TombstoneSinceEpochNanos,
				Prev: n.Value[i].PreviousRoot, Row: n.Value[i].Value}
			if n.Key[i] == nil {
				v.Problems = append(v.Problems, fmt.Sprintf("node %s: nil key at %d", link, i))
				e.Key = &v1proto.SQLiteValue{}
			}
			if e.Tomb == 0 && e.Row == nil {
				// s3db rows always carry a Row message unless tombstoned
				v.Problems = append(v.Problems, fmt.Sprintf("node %s: entry %s has neither row nor tombstone", link, KeyString(e.Key)))
			}
			v.Entries = append(v.Entries, e)
		}
	}
	return max
}

// Reach returns the node names reachable from a version (empty on error).
func Reach(snap map[string][]byte, base, name string) map[string]bool {
	return Walk(snap, base, name).Nodes
}

// Cmp orders two stored key values exactly as SQLite orders values of the
// storage classes (NULL < numeric < TEXT < BLOB; numeric exact).
func Cmp(a, b *v1proto.SQLiteValue) int {
	ca, cb := class(a), class(b)
	if ca != cb {
		if ca < cb {
			return -1
		}
		return 1
	}
	switch ca {
	case 0:
		return 0
	case 1:
		return cmpNum(a, b)
	case 2:
		return strings.Compare(a.Text, b.Text)
	default:
		return bytes.Compare(a.Blob, b.Blob)
	}
}

func class(v *v1proto.SQLiteValue) int {
	switch v.Type {
	case v1proto.Type_NULL:
		return 0
	case v1proto.Type_INT, v1proto.Type_REAL:
		return 1
	case v1proto.Type_TEXT:
		return 2
	}
	return 3
}

func cmpNum(a, b *v1proto.SQLiteValue) int {
	switch {
	case a.Type == v1proto.Type_INT && b.Type == v1proto.Type_INT:
		return cmpI(a.Int, b.Int)
	case a.Type == v1proto.Type_REAL && b.Type == v1proto.Type_REAL:
		return cmpF(a.Real, b.Real)
	case a.Type == v1proto.Type_INT:
		return IntFloatCmp(a.Int, b.Real)
	default:
		return -IntFloatCmp(b.Int, a.Real)
	}
}

func cmpI(a, b int64) int {
	if a < b {
		return -1
	}
	if a > b {
		return 1
	}
	return 0
}

func cmpF(a, b float64) int {
	if a < b {
		return -1
	}
	if a > b {
		return 1
	}
	return 0
}

// IntFloatCmp compares an int64 with a float64 exactly.
func IntFloatCmp(i int64, r float64) int {
	if math.IsNaN(r) {
		return 1
	}
	if r < -9223372036854775808.0 {
		return 1
	}
	if r >= 9223372036854775808.0 {
		return -1
	}
	y := int64(r)
	if i < y {
		return -1
	}
	if i > y {
		return 1
	}
	s := float64(i)
	if s < r {
		return -1
	}
	if s > r {
		return 1
	}
	return 0
}

// KeyString renders a stored value canonically (class prefix + exact value).
func KeyString(v *v1proto.SQLiteValue) string {
	if v == nil {
		return "NULL"
	}
	switch v.Type {
	case v1proto.Type_NULL:
		return "NULL"
	case v1proto.Type_INT:
		return "i:" + strconv.FormatInt(v.Int, 10)
	case v1proto.Type_REAL:
		return "r:" + strconv.FormatFloat(v.Real, 'g', -1, 64)
	case v1proto.Type_TEXT:
		return "t:" + v.Text
	}
	return "b:" + hex.EncodeToString(v.Blob)
}

// RowString renders the visible columns of a row canonically, ordered by the
// given column list (non-key columns).
func RowString(e *Entry, cols []string) string {
	var sb strings.Builder
	sb.WriteString(KeyString(e.Key))
	for _, c := range cols {
		sb.WriteString("|")
		if e.Row != nil {
			if cv, ok := e.Row.ColumnValues[c]; ok && cv.Value != nil {
				sb.WriteString(KeyString(cv.Value))
				continue
			}
		}
		sb.WriteString("NULL")
	}
	return sb.String()
}

// Dump returns the visible rows of a version in canonical form.
func (v *Version) Dump(cols []string) []string {
	var out []string
	for i := range v.Entries {
		if v.Entries[i].Live() {
			out = append(out, RowString(&v.Entries[i], cols))
		}
	}
	return out
}
